#!/usr/bin/env python3
"""Regenerates /verif/MANIFEST.json from the table below (keeps it schema-valid at all times)."""
import json, os, subprocess

VERIF = os.path.dirname(os.path.abspath(__file__))

# property id -> (level category, technique, level text, level note, design ref)
CLAIMED = {
    "C17": ("exploration",
            "runtime oracle over generated keys / peer-id texts (round-trip, equality-vs-encoding, fingerprint agreement)",
            "Executes the real marshal/parse/equality/fingerprint/peer-id code on millions of generated keys, near-miss pairs and hostile texts and compares against reference predicates; held = no disagreement on what was generated.",
            "Trusts encoding/asn1 and encoding/base64; OIDs limited to what asn1 round-trips; cross-swarm-kind fingerprint equality not asserted.",
            "DESIGN.md §4 C17"),
}

NOT_YET = {}

ALL = ["C%02d" % i for i in range(1, 21)]


def hook_commits():
    out = subprocess.run(["git", "-C", "/repo", "log", "--format=%H %s"], capture_output=True, text=True).stdout
    return [l.split()[0] for l in out.splitlines() if " verif hooks:" in l]


def main():
    checks = []
    for pid in ALL:
        if pid not in CLAIMED:
            continue
        cat, tech, text, note, ref = CLAIMED[pid]
        checks.append({
            "property_id": pid,
            "quick_cmd": "./check %s quick" % pid,
            "thorough_cmd": "./check %s thorough" % pid,
            "evidence_file": "/verif/evidence/%s.json" % pid,
            "replay_cmd_template": "./check %s --replay {path}" % pid,
            "engine": "vrun",
            "level_claimed": {"category": cat, "text": text, "design_ref": ref},
            "level_note": note,
            "technique": tech,
        })
    na = []
    for pid in ALL:
        if pid not in CLAIMED:
            na.append({"property_id": pid, "reason": NOT_YET.get(pid, "monitor not built yet in this round (runtime monitoring applies; see DESIGN.md §4); not claimed until its check is sound on the unchanged tree")})
    m = {
        "version": 1,
        "setup_cmd": "cd /verif/harness && export GOFLAGS=-mod=mod GOPROXY=off GOSUMDB=off GOTOOLCHAIN=local && mkdir -p bin && go build -tags verif -o bin/vrun ./cmd/vrun && go build -tags verif -race -o bin/vrun.race ./cmd/vrun",
        "hooks": {
            "guard": "verif",
            "enable": "go build -tags verif (harness module /verif/harness with `replace go.brendoncarroll.net/p2p => /repo`)",
            "baseline_off_cmd": "cd /repo && GOFLAGS=-mod=mod GOPROXY=off GOSUMDB=off GOTOOLCHAIN=local go test -vet=off -count=1 -timeout 25m ./...",
            "source_commits": hook_commits(),
            "add_only": True,
        },
        "engines": [{
            "name": "vrun",
            "path": "/verif/harness",
            "serves_properties": sorted(CLAIMED),
            "kind_free_text": "Go harness (runtime monitors, reference models, adversaries, scripted transports) built against /repo with -tags verif, optionally -race; driven by /verif/check (python3) one child process per batch",
        }],
        "checks": checks,
        "not_applicable": na,
        "notes": "Technique family: runtime monitoring and sanitizers. Every check rebuilds the harness from /repo's working tree. Exit 0 = held on what was observed, 1 = VIOLATION, 2 = could not decide. Genuine defects found are repaired by 'fix:' commits in /repo or listed in /verif/known_findings.json.",
    }
    json.dump(m, open(os.path.join(VERIF, "MANIFEST.json"), "w"), indent=1)
    print("MANIFEST.json: %d checks, %d not claimed" % (len(checks), len(na)))


if __name__ == "__main__":
    main()
