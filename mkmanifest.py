#!/usr/bin/env python3
"""Regenerates /verif/MANIFEST.json from the table below (keeps it schema-valid at all times)."""
import json, os, subprocess

VERIF = os.path.dirname(os.path.abspath(__file__))

# property id -> (level category, technique, level text, level note, design ref)
CLAIMED = {
    "C04": ("exploration",
            "attribution oracle inside handlers (Src identity and LookupPublicKeyInHandler vs the true sender's key) under honest traffic and concrete adversaries (SSH auth interleaver, raw P2PKE on-path attacker, wrong-identity addresses, rejected peers)",
            "Six-node all-pairs traffic on every secure stack with the source's key looked up inside each callback; identity-of-X-at-transport-of-Y addresses must fail and never reach Y; an SSH client interleaves key queries for a victim's key with a real authentication (31 orderings); a raw Noise/P2PKE peer with its own key answers a victim-addressed InitHello and injects handshakes/data at an established peer's transport address across a rekey; whitelists of p2pkeswarm, quicswarm and wlswarm face telling and asking rejected peers.",
            "TLS's CertificateVerify itself is trusted for QUIC; which certificate of a chain and which of its fields the identity is taken from is exercised by a raw TLS peer (client and dialled server) with five claiming chains; a lookup that returns no key is counted, not judged; adversaries are the concrete catalogue.",
            "DESIGN.md §4 C04"),
    "C08": ("exploration",
            "crash oracle: in-process panic capture for synchronous entry points, child-process death (inputs logged to disk before delivery) for layers running in library goroutines, plus a liveness probe after each batch",
            "Hundreds of thousands of hostile inputs per run: random, structure-aware field mutations of genuine packets, contradiction sequences against reassembly state and byte-level mutations, fed to address/key/peer-id parsers, the five demultiplexers, P2PKE sessions in every handshake state and role, channels with 0-3 occupied slots, DHT handlers (also from 8 goroutines at once while peers come and go) and cache calls, and through the harness's wire transport to fragswarm, mbapp (tell/ask/reply paths), multiplexers and p2pkeswarm; each layer must still pass a valid message afterwards.",
            "quicswarm faces a raw hostile quic-go client and a raw hostile quic-go server, sshswarm a raw hostile x/crypto/ssh client; runtime-fatal errors (out of memory, ...) count as crashes; constructor/configuration panics are not judged; in the race pass the single-goroutine phases get an eighth of the inputs.",
            "DESIGN.md §4 C08"),
    "C14": ("exploration",
            "Go race detector (-race, reports parsed, de-duplicated and classified by access site) over high-contention workloads + buffer-ownership canary in every callback",
            "The -race build runs, per stack, the ledger tell workload with replies from inside callbacks while other goroutines hammer LocalAddrs/MTU/ParseAddr/PublicKey/LookupPublicKey and Close races everything, the ask workload, and DHTNode/Cache calls and iterations from 8 goroutines with keys and values living in buffers the caller rewrites after every call; every callback checksums its buffer at entry and exit and scribbles it, and the ledger shows whether old contents ever surface.",
            "Only executed interleavings are seen; a report is the library's when an access site is in the library, or when a harness access to memory the API says is the harness's races with an access made under library frames (even if the copy happens in a third-party package); reports with no library involvement are recorded as external; a report whose sites are both in the harness fails the check as broken.",
            "DESIGN.md §4 C14"),
    "C12": ("exploration",
            "lifecycle monitor: parked-goroutine detector on Close / blocked calls / post-close calls, causal epoch check for deliveries after Close, goroutine-set difference for leaks",
            "On every stack 0-16 goroutines are blocked in Receive/ServeAsk with background contexts while peers tell and ask (optionally replying from inside callbacks); Close at a seeded moment must return, unblock every blocked call with an error, make all later calls fail, never deliver a message created after it returned, tolerate a second Close, and after all swarms are closed no goroutine started by them may remain; an sshswarm node is also closed while raw ssh clients connect and send 40 tells each.",
            "Blocked = parked in library frames in two snapshots 1 s apart after a 5-6 s watchdog; messages in flight at Close are not judged (callbacks that began after Close returned are counted); composites are torn down by their documented owner.",
            "DESIGN.md §4 C12"),
    "C10": ("fault_enumeration",
            "harness-as-transport: enumerated and random interleaving/loss/duplication schedules of labelled real fragments fed to fresh real reassembly instances; payload-identity oracle",
            "Fragments captured from real fragswarm/mbapp senders are fed to a fresh destination instance per schedule: all interleavings x drop-one x duplicate-one for pairs of small messages, random shuffles with loss/duplication for all messages, at inner MTUs 40/64/100/1000; every delivered payload must be one sent payload of the sender Src names, messages with a never-fed fragment must not appear; the largest message each layer says it carries (MTU()-1, MTU(), MTU()+1 bytes over parts of 1, 2 or 4 bytes, so the part count reaches the limit of its header field); also multi-part ask replies under perturbation and reply/tell group-id coincidences.",
            "Missing deliveries are not judged; sender restarts re-using message ids are outside the quantifier.",
            "DESIGN.md §4 C10"),
    "C11": ("exploration",
            "request/response ledger: responses derived from (request id, invocation number, secret) compared at the asker; parked-goroutine detector for asks whose context ended before any handler began",
            "On every ask-capable stack 2-16 concurrent askers ask two serving nodes and one that never serves, with derived/negative/slow/oversize handlers, four context plans and a destination closed mid-run; success must carry exactly the bytes of one non-negative invocation for that very request; handlers must see the request bytes and the asker's address; handlers that only wait for the context they were given are asked with deadlines of a few milliseconds.",
            "Asks whose handler had begun when the context ended are not judged for promptness (hub commit point) unless the handler is waiting only for its own context and that context has not ended; ssh context handling is an open known finding; QUIC-over-UDP and deeper nestings in thorough only.",
            "DESIGN.md §4 C11"),
    "C09": ("exploration",
            "boundary-length workload per stack configuration with a ledger at the receiver and an MTU-error recorder under the layer under test",
            "For ~150 stack configurations (inner MTUs 1..65536, outer MTUs at/around the 255- and 65535-part limits, every multiplexer header length, unequal multi-transport MTUs, nestings; QUIC/SSH in thorough) tells and asks of lengths 0,1,MTU-1,MTU and fragment-count boundaries must not be refused for size by any layer and arrive byte-identical, while MTU+1 and 2*MTU must be refused with the MTU error and never arrive even in part.",
            "A <=MTU payload that is never delivered is reported as a coverage gap unless the recorder shows the inner MTU error was swallowed on every attempt, or (quic, ssh) a control of half the length goes through every time over the same connection while the boundary length never does; inner MTUs <= the layer's header size are not exercised.",
            "DESIGN.md §4 C09"),
    "C01": ("exploration",
            "ledger monitor (sha256 lookup of unique self-describing payloads) inside receiver callbacks on every swarm stack, with buffer canaries and injected delays; thorough adds a -race pass",
            "All-pairs concurrent traffic on every stack and nesting; each delivered payload must be one told to this receiver, Src must name the teller and Dst the receiver; callback buffers are checksummed and scribbled, sender buffers compared and overwritten after Tell, replies go to the observed Src (also from inside the callback), some Tells carry deadlines that expire mid-write; a third of the send vectors are slices of one buffer with gaps and spare capacity, compared as a whole after Tell.",
            "Losses and duplicates are counted, not judged; in the quick tier quicswarm runs only in its skewed-MTU configuration and sshswarm once, everything else of QUIC/SSH in the thorough tier; transport queues of 2-16 buffers, MTU-skewed peers, a link that wipes what it drops, a node closed while its callbacks run and its peers keep telling, the largest message of the reassembling layers and wrong-identity tells on identity-bearing stacks are part of both tiers; the slots of the caller's vector are not judged (quicswarm consumes them on the unchanged tree); ssh source ports are ephemeral so identity+IP decide there.",
            "DESIGN.md §4 C01"),
    "C05": ("exploration",
            "state/ledger oracle on a victim Channel against honest peers and a raw attacker, plus encryption-site hook events",
            "For every predicate, role, RespDone fault and peer kind the victim's RemoteKey/Send/WaitReady/Deliver results and the keys of the sessions that encrypted application data are checked against the predicate and, once bound, against the bound key; foreign-key handshakes (as initiator and as on-path responder to the victim's rekey) must leave the established session working.",
            "Real timers (15 ms backoff); liveness is not judged here (C07).",
            "DESIGN.md §4 C05"),
    "C07": ("fault_enumeration",
            "enumerated prefix scripts over a harness-owned network between real Channels; verdicts on a logical clock (quiescent retransmission rounds) and confirmed quiescence, not wall-clock",
            "Every script over {deliver, drop, duplicate, hold-and-swap} up to length k, crossed with first-Send timing and peer restart points, then reliable delivery: a Send pending after K=10 quiescent retransmission rounds, or pending while nothing is in flight and no handshake timer is armed for 1 s, is a violation; then traffic must flow both ways. Plus rotation (6 rekey periods of two-way traffic), expiry and data-overtakes-RespDone families.",
            "K=10 rounds is the harness's reading of 'small bounded number'; three restart-mid-handshake failure states are listed as open known findings, each with a bound on how many enumerated histories may end that way per run (more is reported as <sig>/more-than-recorded); rotation, idle-expiry and expiry families run only in the plain (non-race) pass; a timer whose callback is executing counts as pending.",
            "DESIGN.md §4 C07"),
    "C13": ("exploration",
            "offline trace-specification checker over boundary-recorded histories (rendezvous spec, conservation) + porcupine bag model for the queue + parked-goroutine detector for cancellation",
            "TellHub, AskHub and Queue are driven directly by 1-8 producers/receivers with per-call contexts, closes and seeded delays at hook points; all events are stamped from one counter at the API boundary and checked offline: exactly-one callback per message, success only after the callback finished, error only if no callback ever saw it, overlapping intervals, conservation, own-context errors; cancelled calls (also udpswarm/vswarm Receive) must not remain parked.",
            "Promptness is decided by two goroutine snapshots 1 s apart after a 3-5 s watchdog (parked in library frames = violation, otherwise inconclusive), never by wall-clock alone; Queue.Purge takes no context, a producer parked in it is released and the case is inconclusive.",
            "DESIGN.md §4 C13"),
    "C02": ("exploration",
            "plaintext/counter ledger monitors over adversarial schedules (sessions driven directly; channels with millisecond timers) + encryption-site hook events",
            "Honest, unrelated and attacker-paired sessions feed one pool on which a seeded adversary replays, mutates, splices, cross-feeds and reorders; every plaintext handed to the application is looked up in the per-pair ledger and keyed by counter (at most once), every ciphertext counter is recorded at the encryption site via a hook and checked for reuse, and emitted bytes are scanned for plaintexts.",
            "Cryptographic soundness of Noise/ChaCha20-Poly1305 is trusted; the adversary is the concrete action catalogue.",
            "DESIGN.md §4 C02"),
    "C03": ("exploration",
            "usability oracle sampled after every message against a raw Noise/P2PKE attacker with its own key",
            "A raw flynn/noise peer forges InitHello/RespHello/InitDone fields (missing, garbage, own, lifted, cross-purpose signatures; replayed bodies; MITM lifts; early data) in both roles and at every point of an honest handshake; after each delivered message IsReady/Send/isApp are sampled and, if usable, RemoteKey must be the key of the principal that holds the other end.",
            "Ed25519/Noise soundness trusted; attack catalogue composed randomly, not all adversary programs.",
            "DESIGN.md §4 C03"),
    "C06": ("fault_enumeration",
            "schedule enumeration by re-execution (deliver/drop/dup/reorder/reflect/retransmit/send) with invariant monitors after every action and a fair-suffix completion check",
            "All schedules to a depth bound (memoised on observable state) and random schedules up to length 40 over the genuine messages of an honest pair; monitors: no panic, rank/readiness monotone, Handshake() idempotent and equal to the last reply; then <=6 fair rounds must complete with crossed keys and deliver the first and second Send of each side.",
            "Sessions re-created per schedule; rank read from observables only.",
            "DESIGN.md §4 C06"),
    "C20": ("exploration",
            "ask-ledger monitor over simulated networks with honest (real DHTNode), failing and adversarial responders",
            "Runs the real DHTFindNode/Join/Get/Put against simulated networks whose Ask function is the harness; every ask is logged, so per-node contact counts, the termination bound and every result field are recomputed from the ledger and compared.",
            "Adversary fabrication capped at 40 new ids per operation; node ids never all-zero; initial peers are a set.",
            "DESIGN.md §4 C20"),
    "C15": ("exploration",
            "runtime oracle over generated frames (round-trip, injectivity set, header prefix-freeness) + channel-tagged ledger on real Mux/AskMux instances",
            "Runs the real framing functions of all five multiplexer kinds on generated and engineered near-collision (channel,payload) pairs, and drives real muxes over memswarm with confusable channel sets where every payload names its channel; held = no mismatch, collision or cross-channel delivery observed.",
            "Framing functions reached through verif-tagged exports; e2e part uses memswarm as transport; tells may be lost (not judged).",
            "DESIGN.md §4 C15"),
    "C16": ("exploration",
            "runtime round-trip oracle over generated and hostile address texts for every address type path",
            "Marshals and re-parses generated addresses of every address type and nesting (depth 3) with the same swarm's parser and feeds mutated/hostile texts; held = every produced address parsed back equal and every accepted hostile text was stable.",
            "Scheme names restricted to the scheme://inner grammar; equality is reflect.DeepEqual plus equal re-marshalled text; accepted texts with a canonical decimal port must come back with that very port (leading-zero / prefixed spellings are not judged: udpswarm reads 00022 as octal).",
            "DESIGN.md §4 C16"),
    "C18": ("exploration",
            "reference-model monitor after every operation (bounded exhaustive BFS + long random sequences) + porcupine linearizability of concurrent histories",
            "Every cache operation is mirrored on a reference map; Count, invariant walker, full enumeration, lookups, added/evicted reports and the eviction bucket are compared after every operation, exhaustively over short sequences on a small universe and randomly over long ones; thorough adds concurrent histories checked with porcupine.",
            "Delete's / RemovePeer's result for absent keys and the choice inside the eviction bucket are not asserted; value slices are stored as given (not the caller's to overwrite), key and info buffers are overwritten by the harness after every call; VerifCheck runs under the cache's own lock (verif tag).",
            "DESIGN.md §4 C18"),
    "C19": ("exploration",
            "brute-force distance oracle over cache states and query keys; exhaustive comparison laws for short strings",
            "ForEach/Closest/ForEachCloser/ForEachMatching/ListNodeInfos/Handle*.Closer are compared with a brute-force sort by bytes.Compare(Distance()) on every BFS state and on random states; DistanceCmp laws are checked exhaustively for strings of length <=1 and on random longer strings.",
            "Ordering asserted for entry keys at least as long as the locus; ties in any order.",
            "DESIGN.md §4 C19"),
    "C17": ("exploration",
            "runtime oracle over generated keys / peer-id texts (round-trip, equality-vs-encoding, fingerprint agreement)",
            "Executes the real marshal/parse/equality/fingerprint/peer-id code on millions of generated keys, near-miss pairs and hostile texts and compares against reference predicates; held = no disagreement on what was generated.",
            "Trusts encoding/asn1 and encoding/base64; OIDs limited to what asn1 round-trips; cross-swarm-kind fingerprint equality not asserted.",
            "DESIGN.md §4 C17"),
}

NOT_YET = {}

# additions of the wave-7 session, appended to the level notes above
EXTRA_NOTES = {
    "C04": " The quicswarm whitelist case is repeated after the guarded node itself dialled identities the rejected peer does not hold at that peer's transport address; a node that addresses a rejected peer under its true identity is not judged (the whitelists govern inbound contacts). On-path scenario e5: from a fresh transport address the attacker repeats a captured InitHello of H verbatim and then completes a handshake under its own key; its data must be attributed to its own key.",
    "C07": " One swarm-level case (plain pass, ~9 s): 27 pairs of p2pkeswarms on a scripted network, a fault script per pair, the network healing one second after the 7.5 s housekeeping pass; no Tell returning nil after K=10 delivered handshake messages of the teller and at least 4 s is reported, unfinished pairs are inconclusive.",
    "C09": " The half-length control also applies to stacks built on the in-process transport alone (nothing is lost there either).",
    "C05": " Two bound-channel attacks run after the session with K has lapsed (120 ms keep-alive, an unanswered Send) and only judge what the channel reports, delivers and encrypts; whether it comes back up with its peer is C07's.",
    "C10": " In the ask-replies family the serving peer also asks the destination a multi-part request while answering it (request and reply from one source under one group id). A failed-tell family lets the scripted transport refuse one fragment of a Tell with an error before the sender tells more messages of the same part count. A concurrent-tells family has six goroutines of one sender instance tell eight multi-part messages each (equal part counts) to one destination at once and feeds what was emitted to a fresh destination.",
    "C11": " Asker-restart family: the asking message-box layer is re-created on the same address while withheld replies to its predecessor are delivered to it. Close-unserved family: hundreds of short trials of asks waiting at a destination where nobody serves, then Close (600 on 8 goroutines for sshswarm); any success there is a violation.",
    "C12": " Three more stacks (frag, p2pke, quic) sit on an in-memory transport whose Close does its work and then reports an error. A held-callback family (one callback held while Close is called, sibling receivers watched) only counts, per stack, siblings that stay parked until the callback returns: late is not stuck, and the unchanged tree shows it in frag(mem) and p2pke(mem). An sshswarm node is also closed while its first Tell is inside the outbound connection setup (a raw ssh server holds the handshake): with the peer's end still open nothing of the closed node may stay parked. Channel swarms of one multiplexer are opened, closed, re-opened under the same id and closed again through stale handles (40-400 seeded histories, five mux kinds), with calls blocked at every first Close.",
    "C15": " Every other end-to-end case ends with asks on a channel that is open at the sender only, back to back between asks on an open channel; an answered one, or a handler of another channel seeing it, is a violation.",
}

ALL = ["C%02d" % i for i in range(1, 21)]


def hook_commits():
    out = subprocess.run(["git", "-C", "/repo", "log", "--format=%H %s"], capture_output=True, text=True).stdout
    return [l.split()[0] for l in out.splitlines() if " verif hooks:" in l]


def main():
    checks = []
    for pid in ALL:
        if pid not in CLAIMED:
            continue
        cat, tech, text, note, ref = CLAIMED[pid]
        checks.append({
            "property_id": pid,
            "quick_cmd": "./check %s quick" % pid,
            "thorough_cmd": "./check %s thorough" % pid,
            "evidence_file": "/verif/evidence/%s.json" % pid,
            "replay_cmd_template": "./check %s --replay {path}" % pid,
            "engine": "vrun",
            "level_claimed": {"category": cat, "text": text, "design_ref": ref},
            "level_note": note + EXTRA_NOTES.get(pid, ""),
            "technique": tech,
        })
    na = []
    for pid in ALL:
        if pid not in CLAIMED:
            na.append({"property_id": pid, "reason": NOT_YET.get(pid, "monitor not built yet in this round (runtime monitoring applies; see DESIGN.md §4); not claimed until its check is sound on the unchanged tree")})
    m = {
        "version": 1,
        "setup_cmd": "cd /verif/harness && export GOFLAGS=-mod=mod GOPROXY=off GOSUMDB=off GOTOOLCHAIN=local && mkdir -p bin && go build -tags verif -o bin/vrun ./cmd/vrun && go build -tags verif -race -o bin/vrun.race ./cmd/vrun",
        "hooks": {
            "guard": "verif",
            "enable": "go build -tags verif (harness module /verif/harness with `replace go.brendoncarroll.net/p2p => /repo`)",
            "baseline_off_cmd": "cd /repo && GOFLAGS=-mod=mod GOPROXY=off GOSUMDB=off GOTOOLCHAIN=local go test -vet=off -count=1 -timeout 25m ./...",
            "source_commits": hook_commits(),
            "add_only": True,
        },
        "engines": [{
            "name": "vrun",
            "path": "/verif/harness",
            "serves_properties": sorted(CLAIMED),
            "kind_free_text": "Go harness (runtime monitors, reference models, adversaries, scripted transports) built against /repo with -tags verif, optionally -race; driven by /verif/check (python3) one child process per batch",
        }],
        "checks": checks,
        "not_applicable": na,
        "notes": "Technique family: runtime monitoring and sanitizers. Every check rebuilds the harness from /repo's working tree. Exit 0 = held on what was observed, 1 = VIOLATION, 2 = could not decide. Genuine defects found are repaired by 'fix:' commits in /repo or listed in /verif/known_findings.json.",
    }
    json.dump(m, open(os.path.join(VERIF, "MANIFEST.json"), "w"), indent=1)
    print("MANIFEST.json: %d checks, %d not claimed" % (len(checks), len(na)))


if __name__ == "__main__":
    main()
