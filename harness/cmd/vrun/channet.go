package main

import (
	"bytes"
	"context"
	"fmt"
	"sync"
	"sync/atomic"
	"time"

	"go.brendoncarroll.net/p2p"
	"go.brendoncarroll.net/p2p/f/x509"
	"go.brendoncarroll.net/p2p/p/p2pke"
)

// cnet: two (or more, after restarts) real Channels whose Send callbacks feed the harness, which is the network.

type cmsg struct {
	From   int
	Gen    int
	Bytes  []byte
	Idx    int
	Ctr    uint32
	Retx   bool   // byte-identical to an earlier message of the same channel, or a further InitHello
	Action string // what the script did with it
}

type cendCfg struct {
	key     testKey
	accept  func(*x509.PublicKey) bool
	timings p2pke.VerifTimings
}

type cend struct {
	idx   int
	gen   int
	ch    *p2pke.Channel
	cfg   cendCfg
	seen  map[string]bool
	hello int
}

type cnet struct {
	mu           sync.Mutex
	ends         [2]*cend
	cfgs         [2]cendCfg
	log          []*cmsg
	script       []byte // per emitted message: 'D' deliver, 'X' drop, '2' duplicate, 'H' hold until after the next message
	pos          int
	held         *cmsg
	prompt       bool
	promptAt     int // log index at which prompt delivery began
	retrans      int // retransmissions observed since prompt began
	lastEmit     time.Time
	inbox        [2]chan []byte
	stop         chan struct{}
	wg           sync.WaitGroup
	appGot       [2]map[string]int
	appLog       [2][]string
	inflight     atomic.Int64
	onApp        func(to int, pt []byte)
	onEmit       func(m *cmsg)      // called with the lock held
	filter       func(m *cmsg) bool // extra drop rule in prompt mode (returns false to drop), lock held
	restartAfter int                // restart end 1 after this many emitted messages (-1 never)
	restarts     int
}

func newCnet(a, b cendCfg, script []byte) *cnet {
	n := &cnet{cfgs: [2]cendCfg{a, b}, script: script, stop: make(chan struct{}), restartAfter: -1}
	for i := 0; i < 2; i++ {
		n.inbox[i] = make(chan []byte, 4096)
		n.appGot[i] = map[string]int{}
	}
	n.lastEmit = time.Now()
	for i := 0; i < 2; i++ {
		n.ends[i] = n.mkEnd(i, 0)
	}
	for i := 0; i < 2; i++ {
		i := i
		n.wg.Add(1)
		go n.pump(i)
	}
	return n
}

func (n *cnet) mkEnd(i, gen int) *cend {
	e := &cend{idx: i, gen: gen, cfg: n.cfgs[i], seen: map[string]bool{}}
	t := e.cfg.timings
	accept := e.cfg.accept
	if accept == nil {
		accept = func(*x509.PublicKey) bool { return true }
	}
	e.ch = p2pke.NewChannel(p2pke.ChannelConfig{
		Registry:         pkeReg,
		PrivateKey:       e.cfg.key.Priv,
		Send:             func(x []byte) { n.onSend(e, x) },
		AcceptKey:        accept,
		Logger:           pkeNop,
		KeepAliveTimeout: t.KeepAliveTimeout,
		HandshakeBackoff: t.HandshakeBackoff,
		RekeyAfterTime:   t.RekeyAfterTime,
		RejectAfterTime:  t.RejectAfterTime,
	})
	return e
}

func (n *cnet) end(i int) *cend {
	n.mu.Lock()
	defer n.mu.Unlock()
	return n.ends[i]
}

// restart replaces end i with a fresh channel using the same key (peer process restart).
func (n *cnet) restart(i int) {
	n.mu.Lock()
	old := n.ends[i]
	ne := n.mkEnd(i, old.gen+1)
	n.ends[i] = ne
	n.restarts++
	n.mu.Unlock()
	go old.ch.Close()
}

func (n *cnet) push(to int, b []byte) {
	n.inflight.Add(1)
	select {
	case n.inbox[to] <- append([]byte{}, b...):
	default:
		n.inflight.Add(-1)
	}
}

func (n *cnet) pump(i int) {
	defer n.wg.Done()
	for {
		select {
		case <-n.stop:
			return
		case b := <-n.inbox[i]:
			e := n.end(i)
			out, _ := e.ch.Deliver(nil, b)
			if out != nil {
				n.mu.Lock()
				n.appGot[i][string(out)]++
				if len(n.appLog[i]) < 2000 {
					n.appLog[i] = append(n.appLog[i], string(out))
				}
				cb := n.onApp
				n.mu.Unlock()
				if cb != nil {
					cb(i, out)
				}
			}
			n.inflight.Add(-1)
		}
	}
}

// onSend is the Send callback of a channel.
func (n *cnet) onSend(e *cend, x []byte) {
	n.mu.Lock()
	if n.ends[e.idx] != e {
		// a message from a channel generation that has been replaced: the dead process cannot send
		n.mu.Unlock()
		return
	}
	m := &cmsg{From: e.idx, Gen: e.gen, Bytes: append([]byte{}, x...), Idx: len(n.log)}
	m.Ctr, _ = msgCounter(x)
	if e.seen[string(x)] {
		m.Retx = true
	}
	if m.Ctr == 0 {
		e.hello++
		if e.hello > 1 {
			m.Retx = true
		}
	}
	e.seen[string(x)] = true
	n.log = append(n.log, m)
	n.lastEmit = time.Now()
	if n.onEmit != nil {
		n.onEmit(m)
	}
	to := 1 - e.idx
	var deliver [][]byte
	if !n.prompt && n.pos < len(n.script) {
		act := n.script[n.pos]
		n.pos++
		m.Action = string(act)
		switch act {
		case 'D':
			deliver = append(deliver, m.Bytes)
		case 'X':
		case '2':
			deliver = append(deliver, m.Bytes, m.Bytes)
		case 'H':
			if n.held != nil {
				// only one message is held at a time: release the older one first
				n.pushLocked(n.held)
			}
			n.held = m
			m = nil
		}
		if n.held != nil && m != nil {
			// the held message goes out after this one
			h := n.held
			n.held = nil
			for _, d := range deliver {
				n.push(to, d)
			}
			deliver = nil
			n.pushLocked(h)
		}
		if n.pos >= len(n.script) {
			n.enterPromptLocked()
		}
	} else {
		if !n.prompt {
			n.enterPromptLocked()
		}
		// a retransmission round counts only if it was emitted while nothing was in flight: every earlier message (and the
		// replies it caused) had been fully processed and the handshake still needed a retransmission.
		if m.Retx && m.Ctr < 16 && n.inflight.Load() == 0 {
			n.retrans++
		}
		if n.filter == nil || n.filter(m) {
			m.Action = "P"
			deliver = append(deliver, m.Bytes)
		} else {
			m.Action = "F"
		}
	}
	doRestart := n.restartAfter >= 0 && len(n.log) == n.restartAfter && n.restarts == 0
	n.mu.Unlock()
	for _, d := range deliver {
		n.push(to, d)
	}
	if doRestart {
		n.restart(1)
	}
}

func (n *cnet) pushLocked(m *cmsg) { n.push(1-m.From, m.Bytes) }

func (n *cnet) enterPromptLocked() {
	if n.prompt {
		return
	}
	n.prompt = true
	n.promptAt = len(n.log)
	if n.held != nil {
		n.pushLocked(n.held)
		n.held = nil
	}
}

// goPrompt switches to reliable in-order delivery.
func (n *cnet) goPrompt() {
	n.mu.Lock()
	n.enterPromptLocked()
	n.mu.Unlock()
}

func (n *cnet) snapshot() (retrans int, logLen int, sinceEmit time.Duration, prompt bool) {
	n.mu.Lock()
	defer n.mu.Unlock()
	return n.retrans, len(n.log), time.Since(n.lastEmit), n.prompt
}

func (n *cnet) describeLog(max int) []string {
	n.mu.Lock()
	defer n.mu.Unlock()
	var out []string
	start := 0
	if len(n.log) > max {
		start = len(n.log) - max
	}
	for _, m := range n.log[start:] {
		out = append(out, fmt.Sprintf("#%d %s(gen%d) ctr=%d len=%d id=%s retx=%v action=%s", m.Idx, "AB"[m.From:m.From+1], m.Gen, m.Ctr, len(m.Bytes), hashStr(string(m.Bytes))[:6], m.Retx, m.Action))
	}
	return out
}

func (n *cnet) close() {
	close(n.stop)
	n.mu.Lock()
	ends := n.ends
	n.mu.Unlock()
	for _, e := range ends {
		e.ch.Close()
	}
	n.wg.Wait()
}

// stalled reports whether nothing is in flight, no handshake timer is pending on either side and nothing was emitted recently.
func (n *cnet) stalled(window time.Duration) (bool, string) {
	for k := 0; k < 4; k++ {
		_, _, since, _ := n.snapshot()
		if since < window || n.inflight.Load() != 0 || len(n.inbox[0]) != 0 || len(n.inbox[1]) != 0 {
			return false, ""
		}
		for i := 0; i < 2; i++ {
			_, hs := n.end(i).ch.VerifTimers()
			// a timer whose callback is executing reads as not pending, yet the channel is about to act (a callback can be
			// slow to get the processor on a loaded machine)
			if hs || n.end(i).ch.VerifTimerCallbackRunning() {
				return false, ""
			}
		}
		time.Sleep(3 * time.Millisecond)
	}
	desc := ""
	// diagnostic: would a fresh responder session accept the peer's latest InitHello?
	n.mu.Lock()
	for i := 0; i < 2; i++ {
		for j := len(n.log) - 1; j >= 0; j-- {
			if m := n.log[j]; m.From == 1-i && m.Ctr == 0 {
				_, _, err := newSession(n.cfgs[i].key, false, time.Now()).Deliver(nil, m.Bytes, time.Now())
				desc += fmt.Sprintf("[fresh responder at %s given %s's last InitHello (#%d): err=%v] ", "AB"[i:i+1], "AB"[1-i:2-i], m.Idx, err)
				break
			}
		}
	}
	n.mu.Unlock()
	for i := 0; i < 2; i++ {
		e := n.end(i)
		rk, hs := e.ch.VerifTimers()
		desc += fmt.Sprintf("%s: slots=%+v rekeyTimerPending=%v handshakeTimerPending=%v; ", "AB"[i:i+1], e.ch.VerifSlots(), rk, hs)
	}
	return true, desc
}

//go:noinline
func chanSendWorker(fn func()) { fn() }

// sendAsync starts Channel.Send in a goroutine and returns a channel carrying its result.
func (n *cnet) sendAsync(ctx context.Context, i int, pt []byte) <-chan error {
	res := make(chan error, 1)
	e := n.end(i)
	go chanSendWorker(func() { res <- e.ch.Send(ctx, p2p.IOVec{pt}) })
	return res
}

func timingsFor(b time.Duration, keepAliveShort bool) p2pke.VerifTimings {
	t := p2pke.VerifTimings{HandshakeBackoff: b, RekeyAfterTime: 60 * b, RejectAfterTime: 95 * b}
	if keepAliveShort {
		t.KeepAliveTimeout = 25 * b
	} else {
		t.KeepAliveTimeout = 200 * b
	}
	return t
}

func containsBytes(hay [][]byte, b []byte) bool {
	for _, h := range hay {
		if bytes.Equal(h, b) {
			return true
		}
	}
	return false
}
