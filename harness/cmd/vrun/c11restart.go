package main

import (
	"context"
	"encoding/binary"
	"fmt"
	"sync"
	"time"

	"go.brendoncarroll.net/p2p"
	"go.brendoncarroll.net/p2p/f/x509"
	"go.brendoncarroll.net/p2p/p/mbapp"

	"verifharness/internal/ev"
	"verifharness/internal/rng"
)

// c11AskerRestart: the asking layer is torn down and re-created on the same transport address while replies to the old
// incarnation are still in the network (the harness is the network: `wire`). The first incarnation asks k times; every reply
// is withheld, the asks time out, the layer is closed. A fresh message-box layer on a fresh node object at the same address
// then asks k times again (its counters start over, so they coincide with the old ones); each request is held in the network
// until the old reply with the same ordinal has been handed to the new incarnation, then released. A successful Ask of the
// new incarnation must return the bytes the handler produced for *its* request; the old answer (to another request) is a
// wrong answer. Errors are allowed and counted.
func c11AskerRestart(r *ev.Run, g *rng.R, caseID, prop string, innerMTU, outerMTU, k, respLen int) {
	net := newWireNet(innerMTU)
	var mu sync.Mutex
	holdReplies, holdRequests := true, false
	var heldReplies, heldRequests []*wireMsg
	net.route = func(m *wireMsg) bool { // called under net.mu
		mu.Lock()
		defer mu.Unlock()
		if m.Dst.N == 0 && holdReplies {
			heldReplies = append(heldReplies, m)
			return false
		}
		if m.Dst.N == 1 && holdRequests {
			heldRequests = append(heldRequests, m)
			return false
		}
		return true
	}
	name := fmt.Sprintf("mbapp(wire,%d/%d),asker-restarted", innerMTU, outerMTU)
	fill := func(buf []byte, id uint64) {
		for i := range buf {
			buf[i] = byte(id*0x9E3779B97F4A7C15>>uint(8*(i%8))) ^ byte(i/8)
		}
	}
	server := mbapp.New[wireAddr, x509.PublicKey](net.node(1), outerMTU)
	sctx, scancel := context.WithCancel(context.Background())
	served := map[uint64]int{} // request id -> number of invocations that have filled their answer (under mu)
	var swg sync.WaitGroup
	for l := 0; l < 2; l++ {
		swg.Add(1)
		go func() {
			defer swg.Done()
			for server.ServeAsk(sctx, func(_ context.Context, resp []byte, m p2p.Message[wireAddr]) int {
				if len(m.Payload) < 8 {
					return -1
				}
				id := binary.LittleEndian.Uint64(m.Payload)
				n := respLen
				if n > len(resp) {
					n = len(resp)
				}
				fill(resp[:n], id)
				mu.Lock()
				served[id]++
				mu.Unlock()
				return n
			}) == nil {
			}
		}()
	}
	defer func() {
		scancel()
		server.Close()
		swg.Wait()
	}()
	mkReq := func(id uint64) p2p.IOVec {
		req := make([]byte, 24+g.Intn(40))
		binary.LittleEndian.PutUint64(req, id)
		return p2p.IOVec{req}
	}
	// incarnation 1: k asks whose replies never arrive
	a1 := mbapp.New[wireAddr, x509.PublicKey](net.node(0), outerMTU)
	oldReplies := make([][]*wireMsg, k)
	for i := 0; i < k; i++ {
		id := uint64(1000 + i)
		ctx, cf := context.WithTimeout(context.Background(), 150*time.Millisecond)
		n, err := a1.Ask(ctx, make([]byte, respLen+16), wireAddr{1}, mkReq(id))
		cf()
		r.Eval(1)
		if err == nil {
			r.Violate(prop+"/success-without-reply/"+name, caseID, fmt.Sprintf("Ask returned (%d, nil) although every message towards the asker was withheld by the network", n), map[string]any{"stack": name, "ordinal": i})
			a1.Close()
			return
		}
		// the handler has run by now or will shortly; wait for its reply to be complete in the network
		last, stable := -1, 0
		for t := 0; t < 600 && stable < 4; t++ {
			mu.Lock()
			have, ran := len(heldReplies), served[id] > 0
			mu.Unlock()
			if ran && have > 0 && have == last {
				stable++
			} else {
				stable = 0
			}
			last = have
			time.Sleep(5 * time.Millisecond)
		}
		mu.Lock()
		oldReplies[i], heldReplies = heldReplies, nil
		mu.Unlock()
	}
	a1.Close()
	time.Sleep(3 * time.Millisecond) // the new incarnation's clock reading differs from the old one's
	// incarnation 2 at the same address
	a2 := mbapp.New[wireAddr, x509.PublicKey](net.replace(0), outerMTU)
	defer a2.Close()
	time.Sleep(20 * time.Millisecond) // the layer's first housekeeping pass is over before parts arrive
	mu.Lock()
	holdReplies, holdRequests = false, true
	mu.Unlock()
	for i := 0; i < k; i++ {
		id := uint64(2000 + i)
		resp := make([]byte, respLen+16)
		var n int
		var err error
		done := make(chan struct{})
		ctx, cf := context.WithTimeout(context.Background(), 5*time.Second)
		req := mkReq(id)
		go func() {
			defer close(done)
			n, err = a2.Ask(ctx, resp, wireAddr{1}, req)
		}()
		r.Eval(1)
		// wait until the request is in the network: the ask is registered by then
		for t := 0; t < 400; t++ {
			mu.Lock()
			have := len(heldRequests)
			mu.Unlock()
			if have > 0 {
				break
			}
			time.Sleep(2 * time.Millisecond)
		}
		injected := 0
		for _, m := range oldReplies[i] {
			if net.inject(m.Src, m.Dst, m.Bytes) {
				injected++
			}
		}
		time.Sleep(15 * time.Millisecond)
		mu.Lock()
		rel := heldRequests
		heldRequests = nil
		mu.Unlock()
		// keep holding later requests; release this one
		for _, m := range rel {
			net.inject(m.Src, m.Dst, m.Bytes)
		}
		// parts of the request sent after the release snapshot
		for t := 0; t < 50; t++ {
			select {
			case <-done:
				t = 50
			case <-time.After(10 * time.Millisecond):
				mu.Lock()
				rel = heldRequests
				heldRequests = nil
				mu.Unlock()
				for _, m := range rel {
					net.inject(m.Src, m.Dst, m.Bytes)
				}
			}
		}
		<-done
		cf()
		if err != nil {
			r.Count("asker_restart_ask_errors", 1)
			continue
		}
		want := make([]byte, respLen)
		fill(want, id)
		if n != len(want) || string(resp[:n]) != string(want) {
			old := make([]byte, respLen)
			fill(old, uint64(1000+i))
			r.Violate(prop+"/wrong-response/"+name, caseID, "after the asking layer was re-created on the same address, an Ask returned bytes that its handler did not produce for this request",
				map[string]any{"stack": name, "ordinal": i, "n": n, "want_len": len(want), "is_answer_to_old_incarnations_request": n == len(old) && string(resp[:n]) == string(old), "old_reply_parts_injected": injected})
			return
		}
		if injected > 0 {
			r.NonTrivial(fmt.Sprintf("%s/k=%d/parts=%d", name, i, len(oldReplies[i])))
			r.Count("asker_restart_old_replies_outlived", 1)
		}
	}
}

func runAskerRestart(r *ev.Run, prop string, g *rng.R) {
	type cfg struct{ inner, outer, k, resp int }
	cfgs := []cfg{{256, 4096, 3, 40}, {128, 4096, 2, 700}, {1000, 1 << 16, 4, 100}, {64, 1024, 2, 300}}
	if isThorough(r) {
		cfgs = append(cfgs, cfg{100, 1 << 16, 6, 5000}, cfg{512, 512 * 8, 5, 0}, cfg{40, 600, 3, 90}, cfg{1400, 1 << 20, 3, 1 << 15})
	}
	for i, c := range cfgs {
		cg := g.Fork()
		caseID := fmt.Sprintf("asker-restart-%d", i)
		if !r.Mine(9000+i) || !r.Want(caseID) {
			continue
		}
		c11AskerRestart(r, cg, caseID, prop, c.inner, c.outer, c.k, c.resp)
	}
}
