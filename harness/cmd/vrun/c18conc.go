package main

import (
	"fmt"
	"sort"
	"strings"
	"sync"
	"sync/atomic"
	"time"

	"github.com/anishathalye/porcupine"
	"go.brendoncarroll.net/p2p/p/kademlia"

	"verifharness/internal/ev"
	"verifharness/internal/rng"
)

// Concurrent histories on one cache, checked for linearizability against the reference model.

type pcIn struct {
	Kind string
	Key  string
	Val  uint64
	T    int
	TTL  int
}

type pcOut struct {
	Evicted    string
	HasEvicted bool
	Added      bool
	Val        uint64
	Ok         bool
	Keys       []string // expire
	N          int      // count
	Panic      string
}

// pcState is an immutable snapshot: sorted "key=val/created/expires" list.
type pcState struct {
	ents map[string]mEnt
}

func (s pcState) clone() pcState {
	m := make(map[string]mEnt, len(s.ents)+1)
	for k, v := range s.ents {
		m[k] = v
	}
	return pcState{m}
}

func pcModel(cfg cacheCfg) porcupine.Model {
	return porcupine.Model{
		Init: func() interface{} { return pcState{map[string]mEnt{}} },
		Equal: func(a, b interface{}) bool {
			x, y := a.(pcState), b.(pcState)
			if len(x.ents) != len(y.ents) {
				return false
			}
			for k, v := range x.ents {
				if w, ok := y.ents[k]; !ok || w != v {
					return false
				}
			}
			return true
		},
		Step: func(state, input, output interface{}) (bool, interface{}) {
			st := state.(pcState)
			in := input.(pcIn)
			out := output.(pcOut)
			if out.Panic != "" {
				return false, st
			}
			switch in.Kind {
			case "put":
				_, existed := st.ents[in.Key]
				ns := st.clone()
				var exp time.Time
				if in.TTL > 0 {
					exp = ktime(in.T + in.TTL)
				}
				ns.ents[in.Key] = mEnt{Key: in.Key, Val: in.Val, Created: ktime(in.T), Expires: exp}
				if len(ns.ents) > cfg.max {
					if !out.HasEvicted {
						return false, st
					}
					if _, ok := ns.ents[out.Evicted]; !ok {
						return false, st
					}
					cm := &cacheModel{locus: cfg.locus, max: cfg.max, minPer: cfg.minPer, m: ns.ents}
					if want := cm.evictionBucket(); want >= 0 && cm.bucketOf(out.Evicted) != want {
						return false, st
					}
					delete(ns.ents, out.Evicted)
				} else if out.HasEvicted {
					return false, st
				}
				_, present := ns.ents[in.Key]
				if out.Added != (present && !existed) {
					return false, st
				}
				return true, ns
			case "get":
				e, ok := st.ents[in.Key]
				return ok == out.Ok && (!ok || e.Val == out.Val), st
			case "delete":
				if _, ok := st.ents[in.Key]; !ok {
					return true, st
				}
				if !out.Ok {
					return false, st
				}
				ns := st.clone()
				delete(ns.ents, in.Key)
				return true, ns
			case "expire":
				now := ktime(in.T)
				want := []string{}
				for k, e := range st.ents {
					if !e.Expires.IsZero() && e.Expires.Before(now) {
						want = append(want, k)
					}
				}
				sort.Strings(want)
				if strings.Join(want, "\x00") != strings.Join(out.Keys, "\x00") {
					return false, st
				}
				ns := st.clone()
				for _, k := range want {
					delete(ns.ents, k)
				}
				return true, ns
			case "count":
				return out.N == len(st.ents), st
			}
			return false, st
		},
		DescribeOperation: func(input, output interface{}) string {
			return fmt.Sprintf("%+v -> %+v", input, output)
		},
	}
}

func runC18Concurrent(r *ev.Run) {
	nHist := pick(r, 0, 400)
	g := rng.New(r.Seed, "C18", "conc", fmt.Sprint(r.Batch))
	var stamp atomic.Int64
	for h := 0; h < nHist; h++ {
		caseID := fmt.Sprintf("conc-%d-%d", r.Batch, h)
		cg := g.Fork()
		if !r.Want(caseID) {
			continue
		}
		locus := []byte{byte(cg.Intn(256))}
		cfg := cacheCfg{locus, cg.Range(1, 5), 0}
		keys := smallUniverse(locus[0])[:9]
		c := kademlia.NewCache[uint64](cfg.locus, cfg.max, cfg.minPer)
		const clients, perClient = 4, 7
		var mu sync.Mutex
		var ops []porcupine.Operation
		var wg sync.WaitGroup
		var valCtr atomic.Uint64
		start := make(chan struct{})
		for cl := 0; cl < clients; cl++ {
			cl := cl
			lg := cg.Fork()
			wg.Add(1)
			go func() {
				defer wg.Done()
				<-start
				for i := 0; i < perClient; i++ {
					in := pcIn{Key: rng.Pick(lg, keys), T: 10 + lg.Intn(6)}
					switch x := lg.Intn(10); {
					case x < 5:
						in.Kind = "put"
						in.Val = valCtr.Add(1)
						in.TTL = rng.Pick(lg, []int{0, 1, 3})
					case x < 7:
						in.Kind = "get"
					case x < 8:
						in.Kind = "delete"
					case x < 9:
						in.Kind = "expire"
					default:
						in.Kind = "count"
					}
					var out pcOut
					call := stamp.Add(1)
					func() {
						defer func() {
							if p := recover(); p != nil {
								out.Panic = fmt.Sprint(p)
							}
						}()
						switch in.Kind {
						case "put":
							var exp time.Time
							if in.TTL > 0 {
								exp = ktime(in.T + in.TTL)
							}
							evd, added := c.Put([]byte(in.Key), in.Val, ktime(in.T), exp)
							out.Added = added
							if evd != nil {
								out.HasEvicted, out.Evicted = true, string(evd.Key)
							}
						case "get":
							out.Val, out.Ok = c.Get([]byte(in.Key), ktime(in.T))
						case "delete":
							e := c.Delete([]byte(in.Key))
							out.Ok = e != nil && string(e.Key) == in.Key
						case "expire":
							for _, e := range c.Expire(nil, ktime(in.T)) {
								out.Keys = append(out.Keys, string(e.Key))
							}
							sort.Strings(out.Keys)
						case "count":
							out.N = c.Count()
						}
					}()
					ret := stamp.Add(1)
					mu.Lock()
					ops = append(ops, porcupine.Operation{ClientId: cl, Input: in, Call: call, Output: out, Return: ret})
					mu.Unlock()
				}
			}()
		}
		close(start)
		wg.Wait()
		r.Eval(1)
		for _, o := range ops {
			if p := o.Output.(pcOut).Panic; p != "" {
				r.Violate("C18/panic/concurrent", caseID, "cache operation panicked under concurrent use: "+p, map[string]any{"op": fmt.Sprintf("%+v", o.Input)})
			}
		}
		res, _ := porcupine.CheckOperationsVerbose(pcModel(cfg), ops, 30*time.Second)
		switch res {
		case porcupine.Illegal:
			desc := []string{}
			sort.Slice(ops, func(i, j int) bool { return ops[i].Call < ops[j].Call })
			for _, o := range ops {
				desc = append(desc, fmt.Sprintf("c%d [%d,%d] %+v -> %+v", o.ClientId, o.Call, o.Return, o.Input, o.Output))
			}
			r.Violate("C18/not-linearizable", caseID, "concurrent history on one cache is not linearizable w.r.t. the reference map", map[string]any{"max": cfg.max, "locus": fmt.Sprintf("%x", locus), "history": desc})
		case porcupine.Unknown:
			r.Inconclusive("porcupine timeout " + caseID)
		default:
			r.NonTrivial(fmt.Sprintf("conc/%d/%d", cfg.max, h%50))
			r.Count("linearizable_histories", 1)
		}
	}
}
