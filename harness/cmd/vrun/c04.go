package main

import (
	"bytes"
	"context"
	"fmt"
	"io"
	"net"
	"reflect"
	"strings"
	"sync"
	"sync/atomic"
	"time"

	"go.brendoncarroll.net/p2p"
	"go.brendoncarroll.net/p2p/f/x509"
	"go.brendoncarroll.net/p2p/p/p2pke"
	"go.brendoncarroll.net/p2p/s/memswarm"
	"go.brendoncarroll.net/p2p/s/p2pkeswarm"
	"go.brendoncarroll.net/p2p/s/quicswarm"
	"go.brendoncarroll.net/p2p/s/sshswarm"
	"go.brendoncarroll.net/p2p/s/wlswarm"
	"golang.org/x/crypto/ssh"
	"google.golang.org/protobuf/proto"

	"verifharness/internal/ev"
	"verifharness/internal/rng"
)

func init() { register("C04", runC04) }

func keysEqual(a, b any) bool {
	switch x := a.(type) {
	case x509.PublicKey:
		y, ok := b.(x509.PublicKey)
		return ok && x509.EqualPublicKeys(&x, &y)
	case ssh.PublicKey:
		y, ok := b.(ssh.PublicKey)
		return ok && x != nil && y != nil && bytes.Equal(x.Marshal(), y.Marshal())
	}
	return reflect.DeepEqual(a, b)
}

func secureStacks(thorough bool) []stackFactory {
	want := map[string]bool{"p2pke(mem)": true, "quic(mem)": true, "ssh": true, "secmem": true, "mbapp(p2pke(mem))": true, "wl(p2pke(mem))": true}
	if thorough {
		want["p2pke(udp)"], want["quic(udp)"], want["p2pke(frag(mem))"], want["wl(mem)"] = true, true, true, true
	}
	var out []stackFactory
	for _, sf := range allStacks() {
		if want[sf.Name] {
			out = append(out, sf)
		}
	}
	return out
}

// c04Honest: all-pairs traffic with >=6 distinct keys; inside every callback the source's key is looked up with a cancelled
// context and compared with the true sender's key; then wrong-identity addresses.
func c04Honest(r *ev.Run, sf stackFactory, g *rng.R, caseID string) {
	c04HonestAs(r, sf, g, caseID, "C04")
}

// c04HonestAs: the same workload reporting under another property's name (C05 uses it for the p2pkeswarm layer).
func c04HonestAs(r *ev.Run, sf stackFactory, g *rng.R, caseID, prop string) {
	o := stackOptsFor(sf.Name, g)
	o.n = 6
	st, err := sf.Build(o)
	if err != nil || !st.Secure {
		r.Inconclusive("cannot build secure stack " + sf.Name)
		return
	}
	name := st.Name
	led := newLedger()
	n := len(st.Nodes)
	ctx, cancel := context.WithCancel(context.Background())
	var rwg sync.WaitGroup
	var delivered atomic.Int64
	viol := func(sig, desc string, d map[string]any) {
		d["stack"] = name
		r.Violate(prop+"/"+sig+"/"+name, caseID, desc, d)
	}
	check := func(node *Node, m Msg, what string) {
		p := append([]byte{}, m.Payload...)
		cands := led.lookup(p)
		if len(cands) == 0 {
			return // C01's business
		}
		e := cands[0]
		if e.Tag == 7 {
			viol("wrong-identity-delivered", "a payload addressed to identity X at node Y's transport address was handed to node Y, which does not hold X's key", map[string]any{"receiver": node.Idx, "addressed_identity_of": e.Dst, "via": what})
			return
		}
		if e.Dst != node.Idx {
			viol("misdelivered", "a payload addressed to one identity was delivered to another node", map[string]any{"receiver": node.Idx, "addressed_to": e.Dst})
			return
		}
		// the identity part of Src must be the sender's
		if !st.SrcNames(e.Sender, m.Src) {
			viol("wrong-source-identity", "the source address of a delivered message does not carry the identity of the node that sent it", map[string]any{"receiver": node.Idx, "sender": e.Sender, "src": fmt.Sprint(m.Src), "sender_addr": fmt.Sprint(st.Nodes[e.Sender].LocalAddrs())})
			return
		}
		pk, err := node.LookupInHandler(m.Src)
		if err != nil {
			// The property constrains the key that a lookup returns, not that a lookup returns one: no key, no claim.
			// (Seen when this node's own Tell to a wrong identity at the sender's transport address replaces the
			// channel while a handler for the old channel is still running.) Counted, never judged; a case in which no
			// lookup succeeded is inconclusive.
			r.Count("lookup_in_handler_failed", 1)
			return
		}
		if !keysEqual(pk, st.Nodes[e.Sender].PublicKey()) {
			viol("lookup-in-handler-wrong-key", "the key looked up for the source address inside the handler is not the sender's key", map[string]any{"receiver": node.Idx, "sender": e.Sender})
			return
		}
		delivered.Add(1)
		r.NonTrivial(fmt.Sprintf("%s/honest/%s", name, what))
	}
	for i := 0; i < n; i++ {
		node := st.Nodes[i]
		rwg.Add(1)
		go func() {
			defer rwg.Done()
			for {
				if err := node.Receive(ctx, func(m Msg) { check(node, m, "tell") }); err != nil {
					return
				}
			}
		}()
		if st.HasAsk {
			rwg.Add(1)
			go func() {
				defer rwg.Done()
				for {
					if err := node.ServeAsk(ctx, func(_ context.Context, resp []byte, m Msg) int {
						check(node, m, "ask")
						return copy(resp, "ok")
					}); err != nil {
						return
					}
				}
			}()
		}
	}
	// honest all pairs
	var swg sync.WaitGroup
	for i := 0; i < n; i++ {
		i := i
		lg := g.Fork()
		swg.Add(1)
		go func() {
			defer swg.Done()
			for rep := 0; rep < 3; rep++ {
				for j := 0; j < n; j++ {
					if i == j {
						continue
					}
					p := led.mk(lg, i, j, 40+lg.Intn(60), 0)
					tctx, cf := context.WithTimeout(ctx, 5*time.Second)
					if st.HasAsk && rep == 1 {
						st.Nodes[i].Ask(tctx, make([]byte, 16), j, p2p.IOVec{p})
					} else {
						st.Nodes[i].Tell(tctx, j, p2p.IOVec{p})
					}
					cf()
					r.Eval(1)
				}
			}
		}()
	}
	swg.Wait()
	for w := 0; w < 300 && delivered.Load() < int64(n*(n-1)); w++ {
		time.Sleep(2 * time.Millisecond)
	}
	// wrong-identity destinations: identity of X, transport of Y
	if sf.Name != "secmem" && sf.Name != "wl(mem)" { // plain in-memory addresses carry no identity part
		for x := 0; x < n; x++ {
			for y := 0; y < n; y++ {
				if x == y || (x+y)%2 == 1 {
					continue
				}
				ax, _ := st.Nodes[x].LocalAddrs()[0].MarshalText()
				ay, _ := st.Nodes[y].LocalAddrs()[0].MarshalText()
				ix, iy := bytes.IndexByte(ax, '@'), bytes.IndexByte(ay, '@')
				if ix < 0 || iy < 0 {
					continue
				}
				text := append(append([]byte{}, ax[:ix]...), ay[iy:]...)
				sender := st.Nodes[(y+1)%n]
				if sender.Idx == x {
					sender = st.Nodes[(y+2)%n]
				}
				addr, err := sender.ParseAddr(text)
				if err != nil {
					continue
				}
				p := led.mk(g, sender.Idx, x, 48, 7)
				tctx, cf := context.WithTimeout(ctx, 400*time.Millisecond)
				var terr error
				if st.HasAsk && (x+y)%4 == 0 {
					_, terr = sender.AskAddr(tctx, make([]byte, 16), addr, p2p.IOVec{p})
				} else {
					terr = sender.TellAddr(tctx, addr, p2p.IOVec{p})
				}
				cf()
				r.Eval(1)
				if terr == nil && (prop == "C01" || prop == "C02") {
					r.Count("wrong_identity_tell_reported_success", 1) // C01 speaks about what is delivered, not about what Tell returns
				} else if terr == nil {
					viol("wrong-identity-accepted", "a Tell/Ask to identity X at node Y's transport address reported success although Y does not hold X's key", map[string]any{"identity_of": x, "transport_of": y, "addr": string(text)})
				} else {
					r.NonTrivial(name + "/wrong-identity-refused")
				}
			}
		}
		// near-miss identities: Y's own identity text with one character changed (first, middle, the last few), at Y's transport
		// address, from a node that already talks to Y: an identity compared or indexed only in part would let these through
		for y := 0; y < n; y++ {
			ay, _ := st.Nodes[y].LocalAddrs()[0].MarshalText()
			iy := bytes.IndexByte(ay, '@')
			if iy < 8 {
				continue
			}
			sender := st.Nodes[(y+1)%n]
			for _, pos := range []int{0, iy / 2, iy - 6, iy - 3, iy - 2, iy - 1} {
				var addr p2p.Addr
				var text []byte
				for _, c := range []byte("AEIMQUYcgkosw048BCDx-_") {
					if ay[pos] == c {
						continue
					}
					t := append([]byte{}, ay...)
					t[pos] = c
					if a, err := sender.ParseAddr(t); err == nil {
						if back, _ := a.MarshalText(); !bytes.Equal(back, ay) {
							addr, text = a, t
							break
						}
					}
				}
				if addr == nil {
					continue
				}
				p := led.mk(g, sender.Idx, y, 48, 7)
				tctx, cf := context.WithTimeout(ctx, 400*time.Millisecond)
				var terr error
				if st.HasAsk && pos%2 == 0 {
					_, terr = sender.AskAddr(tctx, make([]byte, 16), addr, p2p.IOVec{p})
				} else {
					terr = sender.TellAddr(tctx, addr, p2p.IOVec{p})
				}
				cf()
				r.Eval(1)
				if terr == nil && (prop == "C01" || prop == "C02") {
					r.Count("wrong_identity_tell_reported_success", 1)
				} else if terr == nil {
					viol("wrong-identity-accepted", "a Tell/Ask to an identity that differs from node Y's in one character, at node Y's transport address, reported success", map[string]any{"transport_of": y, "changed_position": pos, "identity_length": iy, "addr": string(text)})
				} else {
					r.NonTrivial(name + "/near-miss-identity-refused")
				}
			}
		}
		time.Sleep(20 * time.Millisecond)
		// afterwards the nodes that were (wrongly) dialled talk to the dialler: whatever of it is delivered must carry their
		// own identity (a handshake refused for the wrong identity must not have left a usable session behind)
		for x := 0; x < n; x++ {
			for y := 0; y < n; y++ {
				if x == y || (x+y)%2 == 1 {
					continue
				}
				sender := st.Nodes[(y+1)%n]
				if sender.Idx == x {
					sender = st.Nodes[(y+2)%n]
				}
				for k := 0; k < 2; k++ {
					p := led.mk(g, y, sender.Idx, 40+g.Intn(40), 0)
					tctx, cf := context.WithTimeout(ctx, 150*time.Millisecond)
					st.Nodes[y].Tell(tctx, sender.Idx, p2p.IOVec{p})
					cf()
					r.Eval(1)
				}
			}
		}
		time.Sleep(20 * time.Millisecond)
	}
	cancel()
	cd := make(chan struct{})
	go func() { st.CloseAll(); close(cd) }()
	select {
	case <-cd:
	case <-time.After(10 * time.Second):
		r.Count("teardown_blocked", 1)
	}
	rd := make(chan struct{})
	go func() { rwg.Wait(); close(rd) }()
	select {
	case <-rd:
	case <-time.After(5 * time.Second):
	}
	r.Count("honest_deliveries_checked", delivered.Load())
	if delivered.Load() == 0 {
		r.Inconclusive("no honest delivery on " + name)
	}
}

// ---- (c) SSH: authentication steps interleaved ----

// bogusFormatSigner offers a public key but produces a signature the server rejects softly (unacceptable format), so
// the client library moves on to the next signer: "query key, fail, continue".
type bogusFormatSigner struct{ pub ssh.PublicKey }

func (b bogusFormatSigner) PublicKey() ssh.PublicKey { return b.pub }
func (b bogusFormatSigner) Sign(rand io.Reader, data []byte) (*ssh.Signature, error) {
	return &ssh.Signature{Format: "bogus-format", Blob: make([]byte, 64)}, nil
}

func c04SSHInterleave(r *ev.Run, g *rng.R, caseID string) {
	victimKey := sshSigner(150) // honest node H's key; the attacker knows only the public half
	attacker := sshSigner(151)
	v, err := sshswarm.New("127.0.0.1:0", sshSigner(152))
	if err != nil {
		r.Inconclusive("ssh listen: " + err.Error())
		return
	}
	defer v.Close()
	ctx, cancel := context.WithCancel(context.Background())
	defer cancel()
	victimFP := ssh.FingerprintSHA256(victimKey.PublicKey())
	attackerFP := ssh.FingerprintSHA256(attacker.PublicKey())
	var seen sync.Map // payload -> "fingerprint|lookupkey-fingerprint"
	go func() {
		for {
			if err := v.Receive(ctx, func(m p2p.Message[sshswarm.Addr]) {
				lk := "lookup-failed"
				func() {
					defer func() { recover() }()
					k := p2p.LookupPublicKeyInHandler[sshswarm.Addr, sshswarm.PublicKey](v, m.Src)
					lk = ssh.FingerprintSHA256(k)
				}()
				seen.Store(string(m.Payload), m.Src.Fingerprint+"|"+lk)
			}); err != nil {
				return
			}
		}
	}()
	// every ordering / repetition of {query own (soft-fail), query victim (soft-fail)} up to length 4, then real own auth
	var orders [][]int
	var rec func(prefix []int)
	rec = func(prefix []int) {
		orders = append(orders, append([]int{}, prefix...))
		if len(prefix) >= 4 {
			return
		}
		for _, x := range []int{0, 1} {
			rec(append(prefix, x))
		}
	}
	rec(nil)
	laddr := v.LocalAddrs()[0]
	for oi, ord := range orders {
		if !r.Mine(oi) {
			continue
		}
		r.Eval(1)
		var signers []ssh.Signer
		desc := []string{}
		for _, x := range ord {
			if x == 0 {
				signers = append(signers, bogusFormatSigner{attacker.PublicKey()})
				desc = append(desc, "query-own")
			} else {
				signers = append(signers, bogusFormatSigner{victimKey.PublicKey()})
				desc = append(desc, "query-victim")
			}
		}
		signers = append(signers, attacker)
		desc = append(desc, "auth-own")
		conn, err := net.DialTimeout("tcp", fmt.Sprintf("%s:%d", laddr.IP, laddr.Port), 2*time.Second)
		if err != nil {
			r.Inconclusive("ssh dial: " + err.Error())
			continue
		}
		cfg := &ssh.ClientConfig{User: "x", HostKeyCallback: ssh.InsecureIgnoreHostKey(), Timeout: 3 * time.Second,
			Auth: []ssh.AuthMethod{ssh.PublicKeysCallback(func() ([]ssh.Signer, error) { return signers, nil })}}
		sc, _, _, err := ssh.NewClientConn(conn, conn.RemoteAddr().String(), cfg)
		if err != nil {
			conn.Close()
			r.Count("ssh_interleave_auth_failed", 1)
			continue
		}
		payload := fmt.Sprintf("from-attacker-order-%d-%s", oi, caseID)
		sc.SendRequest("", false, []byte(payload))
		var got string
		for w := 0; w < 500; w++ {
			if x, ok := seen.Load(payload); ok {
				got = x.(string)
				break
			}
			time.Sleep(time.Millisecond)
		}
		sc.Close()
		if got == "" {
			r.Count("ssh_interleave_not_delivered", 1)
			continue
		}
		parts := strings.SplitN(got, "|", 2)
		det := map[string]any{"auth_steps": desc, "src_fingerprint": parts[0], "looked_up_key_fingerprint": parts[1], "attacker_fingerprint": attackerFP, "victim_fingerprint": victimFP}
		if parts[0] != attackerFP {
			sig := "attributed-to-unproven-key/ssh"
			if parts[0] == victimFP {
				sig = "attributed-to-victim-key/ssh"
			}
			r.Violate("C04/"+sig, caseID, "a message sent over a connection authenticated with the attacker's own key was attributed to a key the attacker only offered (queried) without proving possession", det)
			return
		}
		if parts[1] == "lookup-failed" {
			r.Count("lookup_in_handler_failed", 1) // no key returned, no claim made
			continue
		}
		if parts[1] != attackerFP {
			r.Violate("C04/lookup-in-handler-wrong-key/ssh-interleave", caseID, "the key looked up in the handler for the source is not the key the sender proved", det)
			return
		}
		r.NonTrivial(fmt.Sprintf("ssh/interleave/%s", strings.Join(desc, ",")))
	}
}

// ---- (e) raw P2PKE attacker on path under p2pkeswarm ----

func c04P2PKEOnPath(r *ev.Run, g *rng.R, caseID string, caseIdx int) {
	tm := &p2pke.VerifTimings{HandshakeBackoff: 10 * time.Millisecond, RekeyAfterTime: 250 * time.Millisecond, RejectAfterTime: 2 * time.Second, KeepAliveTimeout: 2 * time.Second}
	p2pke.VerifSetChannelTimings(tm)
	defer p2pke.VerifSetChannelTimings(nil)
	net := newWireNet(1500)
	kV, kH, kM := keyN(160), keyN(161), keyN(162)
	idH := p2pkeswarm.DefaultFingerprinter(&kH.Pub)
	idM := p2pkeswarm.DefaultFingerprinter(&kM.Pub)
	// messages between V (w0) and H (w1) flow; M decides what else happens
	var interceptHello atomic.Bool
	var helloFromV atomic.Value
	net.route = func(m *wireMsg) bool {
		if interceptHello.Load() && m.Src.N == 0 && m.Dst.N == 1 {
			if c, ok := msgCounter(m.Bytes); ok && c == 0 {
				helloFromV.Store(append([]byte{}, m.Bytes...))
			}
			return false // M is on path: H never sees V's traffic in this phase
		}
		return true
	}
	v := p2pkeswarm.New[wireAddr](net.node(0), kV.Priv)
	h := p2pkeswarm.New[wireAddr](net.node(1), kH.Priv)
	defer v.Close()
	defer h.Close()
	ctx, cancel := context.WithCancel(context.Background())
	defer cancel()
	type got struct {
		id      p2p.PeerID
		payload string
	}
	var mu sync.Mutex
	var atV []got
	go func() {
		for {
			if err := v.Receive(ctx, func(m p2p.Message[p2pkeswarm.Addr[wireAddr]]) {
				var lk p2p.PeerID
				looked := false
				func() {
					defer func() { recover() }()
					k := p2p.LookupPublicKeyInHandler[p2pkeswarm.Addr[wireAddr], x509.PublicKey](v, m.Src)
					lk = p2pkeswarm.DefaultFingerprinter(&k)
					looked = true
				}()
				mu.Lock()
				atV = append(atV, got{m.Src.ID, string(m.Payload)})
				if looked && lk != m.Src.ID { // a lookup that returns no key makes no claim
					atV = append(atV, got{lk, "LOOKUP-MISMATCH:" + string(m.Payload)})
				}
				mu.Unlock()
			}); err != nil {
				return
			}
		}
	}()
	go func() {
		for {
			if err := h.Receive(ctx, func(m p2p.Message[p2pkeswarm.Addr[wireAddr]]) {}); err != nil {
				return
			}
		}
	}()
	r.Eval(1)
	addrH := p2pkeswarm.Addr[wireAddr]{ID: idH, Addr: wireAddr{1}}
	scenario := caseIdx % 3
	if caseIdx < 0 {
		scenario = 3
	}
	if scenario == 2 || scenario == 3 {
		// e4: H initiates to V; M sees H's InitHello on the wire, lifts its cleartext claim {key, timestamp, signature} into an
		// InitHello of its own (own ephemeral, fresh transport address), never proves anything, and sends data.
		addrV := p2pkeswarm.Addr[wireAddr]{ID: p2pkeswarm.DefaultFingerprinter(&kV.Pub), Addr: wireAddr{0}}
		tctx, cf := context.WithTimeout(ctx, 3*time.Second)
		err := h.Tell(tctx, addrV, p2p.IOVec{[]byte("genuine-from-H")})
		cf()
		if err != nil {
			r.Inconclusive("c04 lifted claim: H could not establish with V: " + err.Error())
			return
		}
		var hello []byte
		for _, wm := range net.take() {
			if wm.Src.N == 1 && wm.Dst.N == 0 && hello == nil {
				if c, ok := msgCounter(wm.Bytes); ok && c == 0 {
					hello = wm.Bytes
				}
			}
		}
		if hello == nil {
			r.Inconclusive("c04 lifted claim: no InitHello from H seen")
			return
		}
		m := newRawPeer(kM, true)
		fresh := wireAddr{2 + g.Intn(3)}
		if scenario == 3 {
			// e5: from a fresh transport address M first repeats H's InitHello verbatim (V's new channel for that address sees H's
			// key claimed, answers, and never gets a proof), then runs a complete, honest handshake under its own key from the same
			// address and sends data. Whatever V delivers of it must be attributed to M's key, never to H's.
			reps := 1 + (-caseIdx)%3
			for i := 0; i < reps; i++ {
				net.inject(fresh, wireAddr{0}, hello)
				time.Sleep(time.Duration(1+g.Intn(4)) * time.Millisecond)
			}
			net.take()
			done := false
			for attempt := 0; attempt < 4 && !done; attempt++ {
				m = newRawPeer(kM, true)
				net.inject(fresh, wireAddr{0}, m.InitHelloOwn(time.Now()))
				for w := 0; w < 150 && !done; w++ {
					time.Sleep(time.Millisecond)
					for _, wm := range net.take() {
						if wm.Src.N == 0 && wm.Dst.N == fresh.N {
							if c, _ := msgCounter(wm.Bytes); c == 1 {
								if _, err := m.ReadRespHello(wm.Bytes); err == nil {
									done = true
								}
							}
						}
					}
				}
			}
			if !done {
				r.NonTrivial("p2pke-on-path/replayed-hello-then-own-handshake/own-hello-unanswered")
				return
			}
			net.inject(fresh, wireAddr{0}, m.InitDone(advSign(kM, advPurposeCB, m.cbAfter)))
			time.Sleep(5 * time.Millisecond)
			for i := 0; i < 3; i++ {
				net.inject(fresh, wireAddr{0}, m.NextData([]byte(fmt.Sprintf("from-M-own-handshake-%d", i))))
			}
			time.Sleep(30 * time.Millisecond)
			mu.Lock()
			defer mu.Unlock()
			n := 0
			for _, x := range atV {
				if strings.HasPrefix(x.payload, "LOOKUP-MISMATCH") {
					r.Violate("C04/lookup-in-handler-wrong-key/p2pke(wire)", caseID, "the key looked up in the handler for the source is not the key the message was attributed to", map[string]any{"delivered": x.payload, "looked_up": x.id.String(), "id_H": idH.String(), "id_M": idM.String()})
					return
				}
				if strings.HasPrefix(x.payload, "from-M") {
					n++
					if x.id != idM {
						sig := "attributed-to-other-key/p2pke(wire)"
						if x.id == idH {
							sig = "attributed-to-victim-key/p2pke(wire)"
						}
						r.Violate("C04/"+sig, caseID, "a peer that proved key M in a complete handshake had its data attributed to another key: before its own handshake it had repeated an InitHello of H from the same transport address", map[string]any{"delivered": x.payload, "attributed_to": x.id.String(), "id_H": idH.String(), "id_M": idM.String(), "hello_repeats": reps})
						return
					}
				}
			}
			if n > 0 {
				r.NonTrivial(fmt.Sprintf("p2pke-on-path/replayed-hello-then-own-handshake/reps=%d", reps))
			} else {
				r.Count("c04_replayed_hello_own_data_not_delivered", 1)
				r.NonTrivial("p2pke-on-path/replayed-hello-then-own-handshake/nothing-delivered")
			}
			return
		}
		net.inject(fresh, wireAddr{0}, m.InitHelloWith(extractInitHelloPayload(hello)))
		answered := false
		for w := 0; w < 300 && !answered; w++ {
			time.Sleep(time.Millisecond)
			for _, wm := range net.take() {
				if wm.Src.N == 0 && wm.Dst.N == fresh.N {
					if c, _ := msgCounter(wm.Bytes); c == 1 {
						if _, err := m.ReadRespHello(wm.Bytes); err == nil {
							answered = true
						}
					}
				}
			}
		}
		if !answered {
			// V did not even answer the lifted hello: nothing more to try
			r.NonTrivial("p2pke-on-path/lifted-claim/unanswered")
			return
		}
		variant := (caseIdx / 3) % 3
		switch variant {
		case 1:
			net.inject(fresh, wireAddr{0}, m.InitDone(advSign(kM, advPurposeCB, m.cbAfter))) // signed, but by the wrong key
		case 2:
			var ih p2pke.InitHello
			pl := extractInitHelloPayload(hello)
			if len(pl) > 2 && proto.Unmarshal(pl[:len(pl)-2], &ih) == nil {
				net.inject(fresh, wireAddr{0}, m.InitDone(ih.Sig)) // H's timestamp signature offered as the proof
			}
		}
		time.Sleep(2 * time.Millisecond)
		for _, c := range []uint32{16, 17, 4, 3, 18} {
			net.inject(fresh, wireAddr{0}, m.Data(c, []byte(fmt.Sprintf("from-M-lifted-claim-%d", c))))
		}
		time.Sleep(20 * time.Millisecond)
		mu.Lock()
		defer mu.Unlock()
		for _, x := range atV {
			if strings.HasPrefix(x.payload, "from-M") || strings.HasPrefix(x.payload, "LOOKUP-MISMATCH") {
				sig := "data-from-unproven-key-delivered/p2pke(wire)"
				if x.id == idH {
					sig = "attributed-to-victim-key/p2pke(wire)"
				}
				r.Violate("C04/"+sig, caseID, "an attacker that only replayed the cleartext identity claim of H's InitHello (own ephemeral, no proof of H's key for this handshake) had its data delivered", map[string]any{"delivered": x.payload, "attributed_to": x.id.String(), "id_H": idH.String(), "id_M": idM.String(), "init_done_variant": variant})
				return
			}
		}
		r.NonTrivial(fmt.Sprintf("p2pke-on-path/lifted-claim/initdone-variant-%d", variant))
		return
	}
	if scenario == 0 {
		// e1: V wants H; M, on path, answers V's InitHello itself with its own key and pushes data
		interceptHello.Store(true)
		tctx, cf := context.WithTimeout(ctx, 300*time.Millisecond)
		sent := make(chan error, 1)
		secret := "secret-for-H-" + caseID
		go func() { sent <- v.Tell(tctx, addrH, p2p.IOVec{[]byte(secret)}) }()
		var hello []byte
		for w := 0; w < 200 && hello == nil; w++ {
			if x := helloFromV.Load(); x != nil {
				hello = x.([]byte)
			}
			time.Sleep(time.Millisecond)
		}
		if hello == nil {
			cf()
			r.Inconclusive("c04 on-path: V never sent an InitHello")
			return
		}
		m := newRawPeer(kM, false)
		if m.ReadInitHello(hello) != nil {
			cf()
			return
		}
		net.inject(wireAddr{1}, wireAddr{0}, m.RespHello(advKeyBytes(kM), advSign(kM, advPurposeCB, m.cbBefore)))
		time.Sleep(5 * time.Millisecond)
		net.inject(wireAddr{1}, wireAddr{0}, m.NextData([]byte("from-M-before-done")))
		net.inject(wireAddr{1}, wireAddr{0}, m.RespDone())
		net.inject(wireAddr{1}, wireAddr{0}, m.NextData([]byte("from-M-after-done")))
		err := <-sent
		cf()
		// whatever V emitted towards w1: can M read the secret?
		leaked := false
		for _, wm := range net.take() {
			if wm.Src.N == 0 && wm.Dst.N == 1 {
				if pt, err := m.Open(wm.Bytes); err == nil && strings.Contains(string(pt), "secret-for-H") {
					leaked = true
				}
			}
		}
		det := map[string]any{"scenario": "on-path responder with own key", "tell_error": fmt.Sprint(err)}
		if leaked {
			r.Violate("C04/payload-for-X-readable-by-other-key/p2pke(wire)", caseID, "a Tell addressed to identity H was encrypted to the attacker's key: the attacker decrypted the payload", det)
			return
		}
		if err == nil {
			r.Violate("C04/wrong-identity-accepted/p2pke(wire)", caseID, "Tell to identity H reported success although only the attacker (another key) ever answered at that transport address", det)
			return
		}
		mu.Lock()
		for _, x := range atV {
			if strings.HasPrefix(x.payload, "from-M") || strings.HasPrefix(x.payload, "LOOKUP-MISMATCH") {
				det["delivered"], det["attributed_to"] = x.payload, x.id.String()
				det["id_H"], det["id_M"] = idH.String(), idM.String()
				mu.Unlock()
				r.Violate("C04/data-from-unaccepted-key-delivered/p2pke(wire)", caseID, "data sent by the attacker (whose key V did not ask for) over V's outgoing channel to H was delivered to V's application", det)
				return
			}
		}
		mu.Unlock()
		r.NonTrivial("p2pke-on-path/responder-with-own-key")
		return
	}
	// e3: V and H are established; M then injects its own handshake and data as from H's transport address
	tctx, cf := context.WithTimeout(ctx, 3*time.Second)
	err := v.Tell(tctx, addrH, p2p.IOVec{[]byte("hello H")})
	cf()
	if err != nil {
		r.Inconclusive("c04 on-path: V could not establish with H: " + err.Error())
		return
	}
	m := newRawPeer(kM, true)
	net.inject(wireAddr{1}, wireAddr{0}, m.InitHelloOwn(time.Now()))
	time.Sleep(10 * time.Millisecond)
	for _, wm := range net.take() {
		if wm.Src.N == 0 && wm.Dst.N == 1 {
			if c, _ := msgCounter(wm.Bytes); c == 1 {
				if _, err := m.ReadRespHello(wm.Bytes); err == nil {
					net.inject(wireAddr{1}, wireAddr{0}, m.InitDone(advSign(kM, advPurposeCB, m.cbAfter)))
					time.Sleep(5 * time.Millisecond)
					net.inject(wireAddr{1}, wireAddr{0}, m.NextData([]byte("from-M-as-H")))
				}
			}
		}
	}
	// also across a rekey of the genuine channel
	time.Sleep(300 * time.Millisecond)
	if m.out != nil {
		net.inject(wireAddr{1}, wireAddr{0}, m.NextData([]byte("from-M-as-H-after-rekey")))
	}
	time.Sleep(10 * time.Millisecond)
	mu.Lock()
	defer mu.Unlock()
	for _, x := range atV {
		if strings.HasPrefix(x.payload, "from-M") || strings.HasPrefix(x.payload, "LOOKUP-MISMATCH") {
			sig := "data-from-foreign-key-delivered/p2pke(wire)"
			if x.id == idH {
				sig = "attributed-to-victim-key/p2pke(wire)"
			}
			r.Violate("C04/"+sig, caseID, "data injected by an attacker with its own key at the established peer's transport address was delivered", map[string]any{"delivered": x.payload, "attributed_to": x.id.String(), "id_H": idH.String(), "id_M": idM.String()})
			return
		}
	}
	// the genuine peer still gets through, attributed to H
	tctx, cf = context.WithTimeout(ctx, 3*time.Second)
	addrV := p2pkeswarm.Addr[wireAddr]{ID: p2pkeswarm.DefaultFingerprinter(&kV.Pub), Addr: wireAddr{0}}
	h.Tell(tctx, addrV, p2p.IOVec{[]byte("genuine-from-H")})
	cf()
	r.NonTrivial("p2pke-on-path/foreign-handshake-at-bound-address")
}

// ---- (f) whitelists ----

func c04Whitelists(r *ev.Run, g *rng.R, caseID string) {
	ctx, cancel := context.WithCancel(context.Background())
	defer cancel()
	type wlCase struct {
		name string
		// build returns the guarded node's receive/serve functions, a function that makes the rejected peer tell/ask it,
		// one that makes an allowed peer do so, and a closer
		run func() (rejectedSeen, allowedSeen int, err error)
	}
	keyR, keyA, keyV := keyN(170), keyN(171), keyN(172)
	collect := func(recv func(context.Context, func(string)) error, serve func(context.Context, func(string)) error) (*sync.Map, func()) {
		var seen sync.Map
		cctx, cf := context.WithCancel(ctx)
		go func() {
			for {
				if err := recv(cctx, func(p string) { seen.Store(p, true) }); err != nil {
					return
				}
			}
		}()
		if serve != nil {
			go func() {
				for {
					if err := serve(cctx, func(p string) { seen.Store("ask:"+p, true) }); err != nil {
						return
					}
				}
			}()
		}
		return &seen, cf
	}
	count := func(m *sync.Map, prefix string) int {
		n := 0
		m.Range(func(k, _ any) bool {
			if strings.Contains(k.(string), prefix) {
				n++
			}
			return true
		})
		return n
	}
	cases := []wlCase{
		{"p2pkeswarm.WithWhitelist", func() (int, int, error) {
			realm := memswarm.NewRealm(memswarm.WithQueueLen(64))
			idR := p2pkeswarm.DefaultFingerprinter(&keyR.Pub)
			v := p2pkeswarm.New[memAddr](realm.NewSwarm(), keyV.Priv, p2pkeswarm.WithWhitelist[memAddr](func(a p2pkeswarm.Addr[memAddr]) bool { return a.ID != idR }))
			rj := p2pkeswarm.New[memAddr](realm.NewSwarm(), keyR.Priv)
			al := p2pkeswarm.New[memAddr](realm.NewSwarm(), keyA.Priv)
			defer v.Close()
			defer rj.Close()
			defer al.Close()
			seen, cf := collect(func(c context.Context, f func(string)) error {
				return v.Receive(c, func(m p2p.Message[p2pkeswarm.Addr[memAddr]]) { f(string(m.Payload)) })
			}, nil)
			defer cf()
			dst := v.LocalAddrs()[0]
			// the guarded node concurrently tells a wrong identity at the rejected peer's transport address
			go func() {
				wrong := p2pkeswarm.Addr[memAddr]{ID: p2p.PeerID{9, 9, 9}, Addr: rj.LocalAddrs()[0].Addr}
				tctx, tcf := context.WithTimeout(ctx, 100*time.Millisecond)
				v.Tell(tctx, wrong, p2p.IOVec{[]byte("to-wrong-identity")})
				tcf()
			}()
			for i := 0; i < 4; i++ {
				tctx, tcf := context.WithTimeout(ctx, 150*time.Millisecond)
				rj.Tell(tctx, dst, p2p.IOVec{[]byte(fmt.Sprintf("rejected-%d", i))})
				tcf()
				tctx, tcf = context.WithTimeout(ctx, time.Second)
				al.Tell(tctx, dst, p2p.IOVec{[]byte(fmt.Sprintf("allowed-%d", i))})
				tcf()
			}
			time.Sleep(20 * time.Millisecond)
			return count(seen, "rejected-"), count(seen, "allowed-"), nil
		}},
		{"quicswarm.WithWhilelist", func() (int, int, error) {
			realm := memswarm.NewRealm(memswarm.WithQueueLen(256))
			idR := quicswarm.DefaultFingerprinter(keyR.Pub)
			v, err := quicswarm.New[memAddr](realm.NewSwarm(), keyV.Priv, quicswarm.WithWhilelist[memAddr](func(a p2p.Addr) bool { return p2p.ExtractPeerID(a) != idR }))
			if err != nil {
				return 0, 0, err
			}
			rj, err := quicswarm.New[memAddr](realm.NewSwarm(), keyR.Priv)
			if err != nil {
				return 0, 0, err
			}
			al, err := quicswarm.New[memAddr](realm.NewSwarm(), keyA.Priv)
			if err != nil {
				return 0, 0, err
			}
			defer v.Close()
			defer rj.Close()
			defer al.Close()
			seen, cf := collect(func(c context.Context, f func(string)) error {
				return v.Receive(c, func(m p2p.Message[quicswarm.Addr[memAddr]]) { f(string(m.Payload)) })
			}, func(c context.Context, f func(string)) error {
				return v.ServeAsk(c, func(_ context.Context, resp []byte, m p2p.Message[quicswarm.Addr[memAddr]]) int {
					f(string(m.Payload))
					return 0
				})
			})
			defer cf()
			dst := v.LocalAddrs()[0]
			// several messages and asks from the rejected peer back to back: one pending Receive / ServeAsk call sees them all
			for k := 0; k < 4; k++ {
				tctx, tcf := context.WithTimeout(ctx, 150*time.Millisecond)
				rj.Tell(tctx, dst, p2p.IOVec{[]byte(fmt.Sprintf("rejected-burst-%d", k))})
				tcf()
			}
			for k := 0; k < 4; k++ {
				tctx, tcf := context.WithTimeout(ctx, 150*time.Millisecond)
				rj.Ask(tctx, make([]byte, 8), dst, p2p.IOVec{[]byte(fmt.Sprintf("rejected-ask-burst-%d", k))})
				tcf()
			}
			for i := 0; i < 3; i++ {
				tctx, tcf := context.WithTimeout(ctx, 500*time.Millisecond)
				rj.Tell(tctx, dst, p2p.IOVec{[]byte(fmt.Sprintf("rejected-%d", i))})
				rj.Ask(tctx, make([]byte, 8), dst, p2p.IOVec{[]byte(fmt.Sprintf("rejected-ask-%d", i))})
				tcf()
				tctx, tcf = context.WithTimeout(ctx, 2*time.Second)
				al.Tell(tctx, dst, p2p.IOVec{[]byte(fmt.Sprintf("allowed-%d", i))})
				al.Ask(tctx, make([]byte, 8), dst, p2p.IOVec{[]byte(fmt.Sprintf("allowed-ask-%d", i))})
				tcf()
			}
			time.Sleep(30 * time.Millisecond)
			return count(seen, "rejected-"), count(seen, "allowed-"), nil
		}},
		{"quicswarm.WithWhilelist/after-dialling-a-wrong-identity-there", func() (int, int, error) {
			realm := memswarm.NewRealm(memswarm.WithQueueLen(256))
			idR := quicswarm.DefaultFingerprinter(keyR.Pub)
			v, err := quicswarm.New[memAddr](realm.NewSwarm(), keyV.Priv, quicswarm.WithWhilelist[memAddr](func(a p2p.Addr) bool { return p2p.ExtractPeerID(a) != idR }))
			if err != nil {
				return 0, 0, err
			}
			rj, err := quicswarm.New[memAddr](realm.NewSwarm(), keyR.Priv)
			if err != nil {
				return 0, 0, err
			}
			al, err := quicswarm.New[memAddr](realm.NewSwarm(), keyA.Priv)
			if err != nil {
				return 0, 0, err
			}
			defer v.Close()
			defer rj.Close()
			defer al.Close()
			seen, cf := collect(func(c context.Context, f func(string)) error {
				return v.Receive(c, func(m p2p.Message[quicswarm.Addr[memAddr]]) { f(string(m.Payload)) })
			}, func(c context.Context, f func(string)) error {
				return v.ServeAsk(c, func(_ context.Context, resp []byte, m p2p.Message[quicswarm.Addr[memAddr]]) int {
					f(string(m.Payload))
					return 0
				})
			})
			defer cf()
			dst := v.LocalAddrs()[0]
			// the guarded node first dials the rejected peer's transport address under identities that peer does not hold (the
			// calls must fail); whatever connection that leaves behind must not become a way in for the rejected peer
			for k := 0; k < 2; k++ {
				wrong := quicswarm.Addr[memAddr]{ID: p2p.PeerID{7, byte(k), 9}, Addr: rj.LocalAddrs()[0].Addr}
				tctx, tcf := context.WithTimeout(ctx, time.Second)
				if k == 0 {
					v.Tell(tctx, wrong, p2p.IOVec{[]byte("to-wrong-identity")})
				} else {
					v.Ask(tctx, make([]byte, 8), wrong, p2p.IOVec{[]byte("ask-to-wrong-identity")})
				}
				tcf()
			}
			// several messages and asks from the rejected peer back to back: one pending Receive / ServeAsk call sees them all
			for k := 0; k < 4; k++ {
				tctx, tcf := context.WithTimeout(ctx, 150*time.Millisecond)
				rj.Tell(tctx, dst, p2p.IOVec{[]byte(fmt.Sprintf("rejected-burst-%d", k))})
				tcf()
			}
			for k := 0; k < 4; k++ {
				tctx, tcf := context.WithTimeout(ctx, 150*time.Millisecond)
				rj.Ask(tctx, make([]byte, 8), dst, p2p.IOVec{[]byte(fmt.Sprintf("rejected-ask-burst-%d", k))})
				tcf()
			}
			for i := 0; i < 3; i++ {
				tctx, tcf := context.WithTimeout(ctx, 500*time.Millisecond)
				rj.Tell(tctx, dst, p2p.IOVec{[]byte(fmt.Sprintf("rejected-%d", i))})
				rj.Ask(tctx, make([]byte, 8), dst, p2p.IOVec{[]byte(fmt.Sprintf("rejected-ask-%d", i))})
				tcf()
				tctx, tcf = context.WithTimeout(ctx, 2*time.Second)
				al.Tell(tctx, dst, p2p.IOVec{[]byte(fmt.Sprintf("allowed-%d", i))})
				al.Ask(tctx, make([]byte, 8), dst, p2p.IOVec{[]byte(fmt.Sprintf("allowed-ask-%d", i))})
				tcf()
			}
			time.Sleep(30 * time.Millisecond)
			return count(seen, "rejected-"), count(seen, "allowed-"), nil
		}},
		{"wlswarm.WrapSecureAsk", func() (int, int, error) {
			realm := memswarm.NewSecureRealm[x509.PublicKey](memswarm.WithQueueLen(64))
			base := realm.NewSwarm(keyV.Pub)
			rj := realm.NewSwarm(keyR.Pub)
			al := realm.NewSwarm(keyA.Pub)
			rejected := rj.LocalAddrs()[0]
			v := wlswarm.WrapSecureAsk[memAddr, x509.PublicKey](base, func(a memAddr) bool { return a != rejected })
			defer v.Close()
			defer rj.Close()
			defer al.Close()
			seen, cf := collect(func(c context.Context, f func(string)) error {
				return v.Receive(c, func(m p2p.Message[memAddr]) { f(string(m.Payload)) })
			}, func(c context.Context, f func(string)) error {
				return v.ServeAsk(c, func(_ context.Context, resp []byte, m p2p.Message[memAddr]) int {
					f(string(m.Payload))
					return 0
				})
			})
			defer cf()
			dst := v.LocalAddrs()[0]
			// several messages and asks from the rejected peer back to back: one pending Receive / ServeAsk call sees them all
			for k := 0; k < 4; k++ {
				tctx, tcf := context.WithTimeout(ctx, 150*time.Millisecond)
				rj.Tell(tctx, dst, p2p.IOVec{[]byte(fmt.Sprintf("rejected-burst-%d", k))})
				tcf()
			}
			for k := 0; k < 4; k++ {
				tctx, tcf := context.WithTimeout(ctx, 150*time.Millisecond)
				rj.Ask(tctx, make([]byte, 8), dst, p2p.IOVec{[]byte(fmt.Sprintf("rejected-ask-burst-%d", k))})
				tcf()
			}
			for i := 0; i < 5; i++ {
				tctx, tcf := context.WithTimeout(ctx, 200*time.Millisecond)
				rj.Tell(tctx, dst, p2p.IOVec{[]byte(fmt.Sprintf("rejected-%d", i))})
				rj.Ask(tctx, make([]byte, 8), dst, p2p.IOVec{[]byte(fmt.Sprintf("rejected-ask-%d", i))})
				al.Tell(tctx, dst, p2p.IOVec{[]byte(fmt.Sprintf("allowed-%d", i))})
				al.Ask(tctx, make([]byte, 8), dst, p2p.IOVec{[]byte(fmt.Sprintf("allowed-ask-%d", i))})
				tcf()
			}
			time.Sleep(10 * time.Millisecond)
			return count(seen, "rejected-"), count(seen, "allowed-"), nil
		}},
	}
	for _, wc := range cases {
		r.Eval(1)
		rs, as, err := wc.run()
		if err != nil {
			r.Inconclusive("whitelist case " + wc.name + ": " + err.Error())
			continue
		}
		if rs > 0 {
			r.Violate("C04/whitelist-bypassed/"+wc.name, caseID, fmt.Sprintf("%d messages/asks from a peer rejected by the whitelist were delivered", rs), map[string]any{"allowed_delivered": as})
			continue
		}
		if as > 0 {
			r.NonTrivial("whitelist/" + wc.name)
		} else {
			r.Count("whitelist_allowed_not_delivered", 1)
		}
	}
}

func runC04(r *ev.Run) {
	r.Rule = "(a) honest all-pairs traffic among 6 nodes with distinct keys on every secure stack: Src identity and the key looked up inside the handler (cancelled context) must be the sender's; (b) Tell/Ask to identity X at node Y's transport address must fail and never reach Y; (c) SSH client interleaving public-key queries for its own and a victim's key (soft-failing signers) with a real authentication, every ordering up to length 4; (e) raw P2PKE attacker on path under p2pkeswarm (answers a victim-addressed InitHello with its own key; handshakes and data at an established peer's transport address, across a rekey; lifts the cleartext identity claim of a genuine InitHello into its own handshake from a fresh address and sends data without, or with a bogus, InitDone); (g) raw QUIC/TLS peer holding only its own key whose certificate chain claims the victim's key in five ways (victim certificate appended or leading, victim certificate alone, names and key identifiers of the victim), as a client of a live node and as the server a node dials for the victim's identity; (f) whitelists of p2pkeswarm, quicswarm and wlswarm against telling and asking rejected peers. non-trivial = the adversarial connection/handshake got far enough that a callback could have fired, or a control message was delivered; distinct = (stack, attack, ordering)"
	r.Assumptions = []string{"TLS itself (CertificateVerify against the leaf certificate) is trusted; what is exercised is which certificate of a chain, and which of its fields, quicswarm takes the identity from", "fingerprint functions are each stack's default"}
	g := rng.New(r.Seed, "C04", fmt.Sprint(r.Batch))
	idx := 0
	for _, sf := range secureStacks(isThorough(r)) {
		for rep := 0; rep < pick(r, 1, 3); rep++ {
			idx++
			cg := g.Fork()
			caseID := fmt.Sprintf("honest-%s-%d", sf.Name, rep)
			if r.Mine(idx) && r.Want(caseID) {
				c04Honest(r, sf, cg, caseID)
			}
		}
	}
	if r.Want("ssh-interleave") {
		c04SSHInterleave(r, g.Fork(), "ssh-interleave")
	}
	for i := 0; i < pick(r, 6, 27); i++ {
		idx++
		cg := g.Fork()
		caseID := fmt.Sprintf("p2pke-on-path-%d", i)
		if r.Mine(idx) && r.Want(caseID) {
			c04P2PKEOnPath(r, cg, caseID, i)
		}
	}
	for i := 0; i < pick(r, 3, 12); i++ {
		idx++
		cg := g.Fork()
		caseID := fmt.Sprintf("p2pke-replayed-hello-%d", i)
		if r.Mine(idx) && r.Want(caseID) {
			c04P2PKEOnPath(r, cg, caseID, -1-i)
		}
	}
	idx++
	if r.Mine(idx) && r.Want("quic-claims") {
		c04QUICClaims(r, g.Fork(), "quic-claims")
	}
	idx++
	if r.Mine(idx) && r.Want("ssh-first-contact") {
		c04SSHFirstContact(r, g.Fork(), "ssh-first-contact")
	}
	idx++
	if r.Mine(idx) && r.Want("whitelists") {
		c04Whitelists(r, g.Fork(), "whitelists")
	}
	r.Sample(map[string]any{"secure_stacks": len(secureStacks(isThorough(r))), "ssh_auth_orderings": 31, "attacks": []string{"wrong-identity address", "ssh first contact with stale identities started together with the right one", "ssh auth interleaving", "p2pke on-path responder", "p2pke foreign handshake at bound address", "whitelist tell/ask", "quic certificate chains claiming the victim"}})
}
