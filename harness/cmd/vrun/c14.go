package main

import (
	"bytes"
	"context"
	"fmt"
	"sync"
	"sync/atomic"
	"time"

	"go.brendoncarroll.net/p2p"
	"go.brendoncarroll.net/p2p/f/x509"
	"go.brendoncarroll.net/p2p/p/kademlia"
	"go.brendoncarroll.net/p2p/verifhook"

	"verifharness/internal/ev"
	"verifharness/internal/rng"
)

func init() { register("C14", runC14) }

// c14Hammer calls the read-only API of every node concurrently with the traffic until stop is closed.
func c14Hammer(st *Stack, stop <-chan struct{}, calls *atomic.Int64) *sync.WaitGroup {
	var wg sync.WaitGroup
	for i, n := range st.Nodes {
		for k := 0; k < 2; k++ {
			i, n := i, n
			wg.Add(1)
			go func() {
				defer wg.Done()
				defer func() { recover() }() // calls racing Close may legitimately fail; a panic here is C12's business
				ctx, cf := context.WithCancel(context.Background())
				defer cf()
				for j := 0; ; j++ {
					select {
					case <-stop:
						return
					default:
					}
					addrs := n.LocalAddrs()
					_ = n.MTU()
					if len(addrs) > 0 {
						if txt, err := addrs[0].MarshalText(); err == nil {
							n.ParseAddr(txt)
						}
					}
					if n.PublicKey != nil {
						_ = n.PublicKey()
						peer := st.Nodes[(i+1)%len(st.Nodes)]
						if pa := peer.LocalAddrs(); len(pa) > 0 {
							lctx, lcf := context.WithTimeout(ctx, 200*time.Millisecond)
							n.LookupPublicKey(lctx, pa[0])
							lcf()
						}
					}
					calls.Add(1)
					if j%16 == 0 {
						time.Sleep(20 * time.Microsecond)
					}
				}
			}()
		}
	}
	return &wg
}

func runC14(r *ev.Run) {
	r.Rule = "race-detector build (-race, halt_on_error=0, reports parsed and classified by access site): per stack the C01 ledger workload at high contention (3 nodes, 4 senders and 3 receivers per node, replies from inside callbacks) while other goroutines call LocalAddrs, MTU, ParseAddr, PublicKey and LookupPublicKey on the same swarms, then Close racing everything; the C11 ask workload; one key Registry loaded from and verified with by 8 goroutines; DHTNode handlers and Cache accessors and iterators called concurrently, keys and values living in buffers the caller rewrites after every call. Second oracle: every callback checksums its buffer at entry and exit and scribbles it, and the ledger shows whether old contents ever surface. non-trivial = the workload delivered messages while the API hammer made calls; distinct = (stack, workload)"
	r.Assumptions = []string{"the race detector only sees races in executed interleavings: held means no report (and no canary hit) in these executions", "reports whose access sites are both outside the library (quic-go, x/crypto) are recorded as external, not judged"}
	if !raceEnabled {
		r.Extra["warning"] = "not a -race build: only the buffer canary oracle is active in this pass"
	}
	g := rng.New(r.Seed, "C14", fmt.Sprint(r.Batch))
	idx := 0
	reps := pick(r, 1, 4)
	for _, sf := range allStacks() {
		if sf.Heavy && !isThorough(r) && sf.Name != "quic(mem)" && sf.Name != "ssh" && sf.Name != "p2pke(udp)" {
			continue
		}
		// reassembling layers get extra runs over a transport with a short receive queue: a layer that keeps a reference to a
		// transport buffer past its callback then shares it with the transport's next delivery
		shortq := 0
		if sf.Name == "frag(mem)" || sf.Name == "mbapp(mem)" {
			shortq = pick(r, 2, 4)
		} else if shortQueueStack(sf.Name) {
			shortq = pick(r, 1, 2) // any layer over a buffer-recycling transport may be tempted to keep a reference past the callback
		}
		for rep := 0; rep < reps+shortq; rep++ {
			idx++
			cg := g.Fork()
			if !r.Mine(idx) {
				continue
			}
			caseID := fmt.Sprintf("%s-%d", sf.Name, rep)
			if !r.Want(caseID) {
				continue
			}
			so := stackOptsFor(sf.Name, cg)
			if rep >= reps {
				so.queueLen = []int{4, 8, 2, 16}[(rep-reps)%4]
			}
			st, err := sf.Build(so)
			if err != nil {
				r.Inconclusive("cannot build " + sf.Name)
				continue
			}
			armStackHooks(cg)
			stop := make(chan struct{})
			var calls atomic.Int64
			hw := c14Hammer(st, stop, &calls)
			cfg := c01Cfg{senders: 4, receivers: 3, repeats: 1, replies: true, doubleClose: rep%2 == 0}
			d := runLedgerWorkload(r, st, cg, caseID, cfg, "C14")
			close(stop)
			hw.Wait()
			verifhook.DisarmAll()
			if d > 0 && calls.Load() > 0 {
				r.NonTrivial(sf.Name + "/tell+api")
			}
			r.Count("api_calls", calls.Load())
			if rep == 0 {
				r.Sample(map[string]any{"stack": sf.Name, "workload": "ledger tells + API hammer + close", "delivered": d, "api_calls": calls.Load()})
			}
			// ask workload on ask-capable stacks
			if rep == 0 {
				st2, err := sf.Build(stackOptsFor(sf.Name, cg))
				if err == nil && st2.HasAsk {
					stop2 := make(chan struct{})
					hw2 := c14Hammer(st2, stop2, &calls)
					per := pick(r, 8, 20)
					if sf.Name == "quic(mem)" || sf.Name == "ssh" {
						per = pick(r, 30, 60) // connection-oriented: many asks of one peer share a session
					}
					c11Run(r, st2, cg, caseID+"-ask", c11Cfg{askers: 8, perAsker: per, serveLoops: 3, closeDst: true}, "C14", false)
					close(stop2)
					hw2.Wait()
					r.NonTrivial(sf.Name + "/ask+api")
				} else if err == nil {
					st2.CloseAll()
				}
			}
		}
	}
	runCancelRacesReply(r, "C14")
	c14ConcurrentWrongIdentity(r, g)
	c14Kademlia(r, g)
	c14Registry(r, g)
}

// c14Kademlia calls DHTNode handlers the way a swarm's receive workers would: concurrently.
func c14Kademlia(r *ev.Run, g *rng.R) {
	caseID := fmt.Sprintf("kademlia-%d", r.Batch)
	if !r.Want(caseID) {
		return
	}
	var local p2p.PeerID
	g.Fill(local[:])
	node := kademlia.NewDHTNode(kademlia.DHTNodeParams{LocalID: local, PeerCacheSize: 256, DataCacheSize: 32})
	cache := kademlia.NewCache[int](local[:], 64, 0)
	var wg sync.WaitGroup
	var ops atomic.Int64
	// a small pool of peers that are added again and again with different info, and readers that keep using what they were
	// handed after the call has returned (results must not be written by later calls)
	pool := make([]p2p.PeerID, 12)
	for i := range pool {
		g.Fill(pool[i][:])
		pool[i][0] = local[0]
	}
	var sink atomic.Uint64
	use := func(b []byte) {
		var x uint64
		for _, c := range b {
			x = x*131 + uint64(c)
		}
		sink.Add(x)
	}
	for w := 0; w < 8; w++ {
		lg := g.Fork()
		wg.Add(1)
		go func() {
			defer wg.Done()
			var kept [][]byte
			lent, lentVal := make([]byte, 32), make([]byte, 8)
			for i := 0; i < pick(r, 1500, 8000); i++ {
				var id p2p.PeerID
				lg.Fill(id[:])
				id[0] = local[0] // keep some keys close
				if lg.Chance(1, 2) {
					id = pool[lg.Intn(len(pool))]
				}
				// keys and values live in a buffer the worker writes again after each call, the way a receive worker's
				// buffer is: whatever the node or the cache keeps must be its own copy
				copy(lent, id[:])
				key := lent[:lg.Range(1, 32)]
				val := lentVal[:lg.Range(1, 8)]
				switch lg.Intn(16) {
				case 14:
					cache.ForEach(nil, func(e kademlia.Entry[int]) bool { use(e.Key); return true })
				case 15:
					if e := cache.Closest(key); e != nil {
						use(e.Key)
					}
					cache.ForEachCloser(key, func(e kademlia.Entry[int]) bool { use(e.Key); return true })
				case 12:
					if info, ok := node.GetPeer(id); ok {
						kept = append(kept, info)
					}
					for _, ni := range node.ListNodeInfos(key, 8) {
						kept = append(kept, ni.Info)
					}
					if res, err := node.HandleFindNode(id, kademlia.FindNodeReq{Target: id, Limit: 5}); err == nil {
						for _, ni := range res.Nodes {
							kept = append(kept, ni.Info)
						}
					}
					if len(kept) > 64 {
						kept = kept[len(kept)-64:]
					}
				case 13:
					for _, b := range kept {
						use(b)
					}
				case 0:
					node.AddPeer(id, lg.Bytes(lg.Range(0, 24)))
				case 1:
					node.HandlePut(id, kademlia.PutReq{Key: key, Value: val, TTLms: 1000})
				case 2:
					node.HandleGet(id, kademlia.GetReq{Key: key})
				case 3:
					node.HandleFindNode(id, kademlia.FindNodeReq{Target: id, Limit: 5})
				case 4:
					_ = node.Count()
				case 5:
					_ = node.String()
				case 6:
					node.RemovePeer(id)
				case 7:
					node.WouldAdd(key)
				case 8:
					cache.Put(key, i, time.Now(), time.Now().Add(time.Second))
				case 9:
					_ = cache.Count()
					_ = cache.IsFull()
				case 10:
					cache.Get(key, time.Now())
					cache.AcceptingPrefixLen()
				default:
					cache.Expire(nil, time.Now())
					cache.Delete(key)
				}
				for j := range lent {
					lent[j] ^= 0xa5
				}
				for j := range lentVal {
					lentVal[j]++
				}
				ops.Add(1)
			}
		}()
	}
	wg.Wait()
	r.Eval(ops.Load())
	r.NonTrivial("kademlia/concurrent-handlers")
	r.Count("kademlia_ops", ops.Load())
}

// c14ConcurrentWrongIdentity: several goroutines at once tell identities that do not match the channel a p2pkeswarm node already
// holds for that transport address (stale address-book entries), next to honest traffic: the paths that replace a channel are
// concurrent use too.
func c14ConcurrentWrongIdentity(r *ev.Run, g *rng.R) {
	caseID := fmt.Sprintf("p2pke-wrong-identity-concurrent-%d", r.Batch)
	if !r.Want(caseID) {
		return
	}
	st := buildP2PKEMem(stackOpts{n: 4})
	defer st.CloseAll()
	n := len(st.Nodes)
	ctx, cancel := context.WithCancel(context.Background())
	defer cancel()
	for i := 0; i < n; i++ {
		node := st.Nodes[i]
		go func() {
			for {
				if node.Receive(ctx, func(Msg) {}) != nil {
					return
				}
			}
		}()
	}
	// honest all pairs first: every node holds a channel for every other node's address
	for i := 0; i < n; i++ {
		for j := 0; j < n; j++ {
			if i != j {
				tctx, cf := context.WithTimeout(ctx, 3*time.Second)
				st.Nodes[i].Tell(tctx, j, p2p.IOVec{[]byte("hello")})
				cf()
			}
		}
	}
	var wg sync.WaitGroup
	var calls atomic.Int64
	for w := 0; w < 8; w++ {
		lg := g.Fork()
		wg.Add(1)
		go func() {
			defer wg.Done()
			for k := 0; k < pick(r, 120, 400); k++ {
				s, x, y := lg.Intn(n), lg.Intn(n), lg.Intn(n)
				if x == y || s == y {
					continue
				}
				ax, _ := st.Nodes[x].LocalAddrs()[0].MarshalText()
				ay, _ := st.Nodes[y].LocalAddrs()[0].MarshalText()
				ix, iy := bytes.IndexByte(ax, '@'), bytes.IndexByte(ay, '@')
				if ix < 0 || iy < 0 {
					continue
				}
				addr, err := st.Nodes[s].ParseAddr(append(append([]byte{}, ax[:ix]...), ay[iy:]...))
				if err != nil {
					continue
				}
				tctx, cf := context.WithTimeout(ctx, 20*time.Millisecond)
				st.Nodes[s].TellAddr(tctx, addr, p2p.IOVec{[]byte("to a stale identity")})
				cf()
				calls.Add(1)
				if lg.Chance(1, 3) {
					tctx, cf := context.WithTimeout(ctx, 50*time.Millisecond)
					st.Nodes[s].Tell(tctx, y, p2p.IOVec{[]byte("honest again")})
					cf()
				}
			}
		}()
	}
	wg.Wait()
	r.Eval(calls.Load())
	r.NonTrivial("p2pke/wrong-identity-concurrent")
	r.Count("wrong_identity_tells", calls.Load())
}

// c14Registry: one key Registry shared by 8 goroutines, the way the receive workers of a p2pkeswarm node share theirs: each
// loads verifiers and signers for its own key and checks that a verifier loaded for key j accepts j's signature and refuses
// everybody else's (a verifier that ends up holding another goroutine's key is what a race on the parsing path produces).
func c14Registry(r *ev.Run, g *rng.R) {
	caseID := fmt.Sprintf("registry-%d", r.Batch)
	if !r.Want(caseID) {
		return
	}
	reg := x509.DefaultRegistry()
	const workers = 8
	msg := []byte("c14 registry message")
	sigs := make([][]byte, workers)
	keys := make([]testKey, workers)
	for j := range keys {
		keys[j] = keyN(700 + j)
		s, err := reg.LoadSigner(&keys[j].Priv)
		if err != nil {
			r.Inconclusive("c14 registry: " + err.Error())
			return
		}
		sigs[j], _ = s.Sign(nil, msg)
	}
	var wg sync.WaitGroup
	var ops atomic.Int64
	var bad atomic.Value
	for j := 0; j < workers; j++ {
		j := j
		wg.Add(1)
		go func() {
			defer wg.Done()
			pub := keys[j].Pub
			enc := x509.MarshalPublicKey(nil, &pub)
			for i := 0; i < pick(r, 1500, 10000); i++ {
				var v x509.Verifier
				var err error
				if i%2 == 0 {
					v, err = reg.LoadVerifier(&pub)
				} else {
					v, err = reg.ParseVerifier(enc)
				}
				if err != nil {
					bad.CompareAndSwap(nil, "a valid key could not be loaded: "+err.Error())
					return
				}
				other := (j + 1 + i%(workers-1)) % workers
				if !v.Verify(msg, sigs[j]) {
					bad.CompareAndSwap(nil, fmt.Sprintf("the verifier loaded for key %d refuses that key's signature", j))
				}
				if v.Verify(msg, sigs[other]) {
					bad.CompareAndSwap(nil, fmt.Sprintf("the verifier loaded for key %d accepts the signature of key %d", j, other))
				}
				ops.Add(1)
			}
		}()
	}
	wg.Wait()
	r.Eval(ops.Load())
	if b := bad.Load(); b != nil {
		r.Violate("C14/registry-verifier-mixed-up", caseID, "concurrent use of one key registry: "+b.(string), map[string]any{"workers": workers})
		return
	}
	r.NonTrivial("x509/registry-concurrent-load")
}
