package main

import (
	"bytes"
	"fmt"
	"hash/fnv"
	"sort"
	"strings"
	"time"

	"go.brendoncarroll.net/p2p/f/x509"
	"go.brendoncarroll.net/p2p/p/p2pke"

	"verifharness/internal/ev"
	"verifharness/internal/rng"
)

func init() { register("C06", runC06) }

type hsAct struct {
	Kind string `json:"k"` // deliver | handshake | send
	To   int    `json:"to"`
	Msg  int    `json:"m,omitempty"`
}

func (a hsAct) String() string {
	who := "AB"[a.To : a.To+1]
	switch a.Kind {
	case "deliver":
		return fmt.Sprintf("deliver(#%d->%s)", a.Msg, who)
	case "handshake":
		return fmt.Sprintf("handshake(%s)", who)
	default:
		return fmt.Sprintf("send(%s)", who)
	}
}

type hsMsg struct {
	From  int
	Bytes []byte
	Ctr   uint32
}

type hsPair struct {
	s         [2]*p2pke.Session
	keys      [2]testKey
	pool      []hsMsg
	poolKey   map[string]int
	lastRank  [2]int
	wasReady  [2]bool
	sent      [2]map[string]bool
	got       [2]map[string]int
	dataSeen  [2]map[uint32]bool
	delivered map[[2]int]int // (msg, to) -> times
	latest    [2]int         // index of the latest message produced by each side (-1 none)
	perturbed bool
	now       time.Time
	acts      []hsAct
	viol      violFn
	dead      bool
	ptCtr     int
}

func newHsPair(viol violFn) *hsPair {
	p := &hsPair{keys: [2]testKey{keyN(1), keyN(2)}, poolKey: map[string]int{}, now: pkeT0.Add(time.Second), viol: viol,
		delivered: map[[2]int]int{}, latest: [2]int{-1, -1}}
	p.s[0] = newSession(p.keys[0], true, pkeT0)
	p.s[1] = newSession(p.keys[1], false, pkeT0)
	for i := 0; i < 2; i++ {
		p.sent[i] = map[string]bool{}
		p.got[i] = map[string]int{}
		p.dataSeen[i] = map[uint32]bool{}
	}
	p.lastRank = [2]int{-1, -1}
	p.observe("init")
	return p
}

func (p *hsPair) detail(extra map[string]any) map[string]any {
	acts := make([]string, len(p.acts))
	for i, a := range p.acts {
		acts[i] = a.String()
	}
	pool := make([]string, len(p.pool))
	for i, m := range p.pool {
		pool[i] = fmt.Sprintf("#%d from %s ctr=%d len=%d", i, "AB"[m.From:m.From+1], m.Ctr, len(m.Bytes))
	}
	d := map[string]any{"schedule": acts, "pool": pool, "rank": p.lastRank, "ready": p.wasReady}
	for k, v := range extra {
		d[k] = v
	}
	return d
}

func (p *hsPair) fail(sig, desc string, extra map[string]any) {
	if p.dead {
		return
	}
	p.dead = true
	p.viol(sig, desc, p.detail(extra))
}

func (p *hsPair) add(from int, b []byte) int {
	if len(b) == 0 {
		return -1
	}
	if i, ok := p.poolKey[string(b)]; ok {
		return i
	}
	c, _ := msgCounter(b)
	p.pool = append(p.pool, hsMsg{From: from, Bytes: append([]byte{}, b...), Ctr: c})
	i := len(p.pool) - 1
	p.poolKey[string(b)] = i
	p.latest[from] = i
	return i
}

// rankOf reads the handshake progress from observables only.
func (p *hsPair) rankOf(i int) (rank int, hs []byte, ok bool) {
	var h1, h2 []byte
	var ready bool
	if pan := sessCall(func() {
		h1 = p.s[i].Handshake(nil)
		h2 = p.s[i].Handshake(nil)
		ready = p.s[i].IsReady()
	}); pan != nil {
		p.fail("C06/panic/handshake", fmt.Sprintf("Handshake()/IsReady() panicked: %v", pan), nil)
		return 0, nil, false
	}
	if !bytes.Equal(h1, h2) {
		p.fail("C06/handshake-not-idempotent", "two consecutive Handshake() calls returned different bytes", map[string]any{"first": hexShort(h1), "second": hexShort(h2)})
		return 0, nil, false
	}
	c, has := msgCounter(h1)
	if i == 0 { // initiator: 0 -> 2 -> none
		switch {
		case has && c == 0:
			rank = 0
		case has && c == 2:
			rank = 1
		case !has:
			rank = 2
		default:
			p.fail("C06/unexpected-handshake-message", fmt.Sprintf("initiator's Handshake() has counter %d", c), nil)
			return 0, nil, false
		}
		if ready && rank < 2 {
			// ready initiators have nothing left to send
			p.fail("C06/ready-but-handshaking", "initiator reports ready while still offering a handshake message", nil)
			return 0, nil, false
		}
	} else { // responder: none -> 1 -> 3 -> none
		switch {
		case !has && !ready:
			rank = 0
		case has && c == 1:
			rank = 1
		case has && c == 3:
			rank = 2
		case !has && ready:
			rank = 3
		default:
			p.fail("C06/unexpected-handshake-message", fmt.Sprintf("responder's Handshake() has counter %d", c), nil)
			return 0, nil, false
		}
	}
	return rank, h1, true
}

func (p *hsPair) observe(after string) {
	for i := 0; i < 2; i++ {
		rank, _, ok := p.rankOf(i)
		if !ok {
			return
		}
		ready := p.s[i].IsReady()
		if rank < p.lastRank[i] {
			p.fail("C06/regress", fmt.Sprintf("session %s went from rank %d back to %d after %s", "AB"[i:i+1], p.lastRank[i], rank, after), nil)
			return
		}
		if p.wasReady[i] && !ready {
			p.fail("C06/ready-reverted", fmt.Sprintf("session %s was ready and no longer is after %s", "AB"[i:i+1], after), nil)
			return
		}
		p.lastRank[i], p.wasReady[i] = rank, ready
	}
}

func (p *hsPair) apply(a hsAct) {
	if p.dead {
		return
	}
	p.acts = append(p.acts, a)
	p.now = p.now.Add(time.Millisecond)
	t := a.To
	switch a.Kind {
	case "handshake":
		var out []byte
		if pan := sessCall(func() { out = p.s[t].Handshake(nil) }); pan != nil {
			p.fail("C06/panic/handshake", fmt.Sprintf("Handshake() panicked: %v", pan), nil)
			return
		}
		p.add(t, out)
	case "send":
		p.ptCtr++
		pt := []byte(fmt.Sprintf("pt-%s-%04d-%s", "AB"[t:t+1], p.ptCtr, strings.Repeat("x", p.ptCtr%7)))
		var out []byte
		var err error
		if pan := sessCall(func() { out, err = p.s[t].Send(nil, pt, p.now) }); pan != nil {
			p.fail("C06/panic/send", fmt.Sprintf("Send panicked: %v", pan), nil)
			return
		}
		if err == nil {
			p.sent[t][string(pt)] = true
			p.add(t, out)
		}
	case "deliver":
		m := p.pool[a.Msg]
		// classify the perturbation
		key := [2]int{a.Msg, t}
		if m.From == t || p.delivered[key] > 0 || p.latest[m.From] != a.Msg {
			p.perturbed = true
		}
		p.delivered[key]++
		var isApp bool
		var out []byte
		var err error
		if pan := sessCall(func() { isApp, out, err = p.s[t].Deliver(nil, append([]byte{}, m.Bytes...), p.now) }); pan != nil {
			p.fail("C06/panic/deliver", fmt.Sprintf("Deliver panicked: %v", pan), map[string]any{"msg": a.Msg})
			return
		}
		if err == nil && isApp {
			p.got[t][string(out)]++
			p.dataSeen[t][m.Ctr] = true
		} else if err == nil {
			// a handshake reply must be the session's current handshake message
			_, cur, ok := p.rankOf(t)
			if !ok {
				return
			}
			if !bytes.Equal(cur, out) {
				p.fail("C06/reply-differs-from-current", "the reply returned by Deliver differs from the session's current handshake message", map[string]any{"reply": hexShort(out), "current": hexShort(cur)})
				return
			}
			p.add(t, out)
		}
	}
	p.observe(a.String())
}

func (p *hsPair) abstract() string {
	var sb strings.Builder
	fmt.Fprintf(&sb, "%d%d%v%v|", p.lastRank[0], p.lastRank[1], p.wasReady[0], p.wasReady[1])
	fmt.Fprintf(&sb, "%d,%d|", p.s[0].VerifSendCounter(), p.s[1].VerifSendCounter())
	kinds := make([]string, len(p.pool))
	for i, m := range p.pool {
		kinds[i] = fmt.Sprintf("%d:%d", m.From, m.Ctr)
	}
	sort.Strings(kinds)
	sb.WriteString(strings.Join(kinds, ","))
	for i := 0; i < 2; i++ {
		var cs []int
		for c := range p.dataSeen[i] {
			cs = append(cs, int(c))
		}
		sort.Ints(cs)
		fmt.Fprintf(&sb, "|%v", cs)
	}
	return sb.String()
}

// actions enumerates the actions available now.
func (p *hsPair) actions() []hsAct {
	var out []hsAct
	for i := range p.pool {
		out = append(out, hsAct{Kind: "deliver", To: 0, Msg: i}, hsAct{Kind: "deliver", To: 1, Msg: i})
	}
	out = append(out, hsAct{Kind: "handshake", To: 0}, hsAct{Kind: "handshake", To: 1})
	for t := 0; t < 2; t++ {
		if p.wasReady[t] {
			out = append(out, hsAct{Kind: "send", To: t})
		}
	}
	return out
}

// fairSuffix delivers each side's current handshake message in sequence for at most K rounds and
// then requires readiness, matching keys and data flow both ways starting with the very first Send.
func (p *hsPair) fairSuffix() (completed bool) {
	if p.dead {
		return false
	}
	const K = 6
	step := func(from int) bool {
		to := 1 - from
		var m []byte
		if pan := sessCall(func() { m = p.s[from].Handshake(nil) }); pan != nil {
			p.fail("C06/panic/handshake", fmt.Sprintf("Handshake() panicked in the fair suffix: %v", pan), nil)
			return false
		}
		for hop := 0; len(m) > 0 && hop < 4; hop++ {
			p.now = p.now.Add(time.Millisecond)
			var isApp bool
			var out []byte
			var err error
			if pan := sessCall(func() { isApp, out, err = p.s[to].Deliver(nil, append([]byte{}, m...), p.now) }); pan != nil {
				p.fail("C06/panic/deliver", fmt.Sprintf("Deliver panicked in the fair suffix: %v", pan), nil)
				return false
			}
			if err != nil || isApp {
				break
			}
			m = out
			from, to = to, from
			if hop >= 1 {
				break // "A.Handshake()->B, reply->A": one message and its reply
			}
		}
		p.observe("fair suffix")
		return !p.dead
	}
	rounds := 0
	for rounds = 0; rounds < K; rounds++ {
		if p.s[0].IsReady() && p.s[1].IsReady() {
			break
		}
		if !step(0) || !step(1) {
			return false
		}
	}
	if !(p.s[0].IsReady() && p.s[1].IsReady()) {
		p.fail("C06/not-ready-after-fair-suffix", fmt.Sprintf("after %d fair rounds the sessions are not both ready (A=%v B=%v)", K, p.s[0].IsReady(), p.s[1].IsReady()), nil)
		return false
	}
	ra, rb := p.s[0].RemoteKey(), p.s[1].RemoteKey()
	if !x509.EqualPublicKeys(&ra, &p.keys[1].Pub) || !x509.EqualPublicKeys(&rb, &p.keys[0].Pub) {
		p.fail("C06/keys-do-not-cross-match", "after completion the sessions do not report each other's key", nil)
		return false
	}
	// data flows both ways, starting with the very first Send of each side
	for n := 0; n < 2; n++ {
		for from := 0; from < 2; from++ {
			to := 1 - from
			p.now = p.now.Add(time.Millisecond)
			pt := []byte(fmt.Sprintf("suffix-%s-%d", "AB"[from:from+1], n))
			var ct []byte
			var err error
			if pan := sessCall(func() { ct, err = p.s[from].Send(nil, pt, p.now) }); pan != nil {
				p.fail("C06/panic/send", fmt.Sprintf("Send panicked: %v", pan), nil)
				return false
			}
			if err != nil {
				p.fail("C06/send-refused-when-ready", fmt.Sprintf("Send #%d from %s failed on a ready session: %v", n, "AB"[from:from+1], err), nil)
				return false
			}
			var isApp bool
			var out []byte
			if pan := sessCall(func() { isApp, out, err = p.s[to].Deliver(nil, ct, p.now) }); pan != nil {
				p.fail("C06/panic/deliver", fmt.Sprintf("Deliver panicked: %v", pan), nil)
				return false
			}
			c, _ := msgCounter(ct)
			if err != nil || !isApp || !bytes.Equal(out, pt) {
				p.fail("C06/data-does-not-flow", fmt.Sprintf("Send #%d from %s (counter %d) was not delivered as application data at the peer (isApp=%v err=%v)", n, "AB"[from:from+1], c, isApp, err), map[string]any{"send_index_after_schedule": n})
				return false
			}
		}
	}
	return true
}

func runC06(r *ev.Run) {
	r.Rule = "schedules over the genuine messages of one honest session pair: deliver any pool message to either session (incl. reflection), Handshake() (retransmit), Send() when ready; exhaustive by re-execution to depth d with memoisation on (ranks, readiness, send counters, pool message kinds, data counters seen), random beyond; after every action: no panic, rank and readiness monotone, Handshake() idempotent and equal to the last reply; then a fair suffix of <=6 rounds must make both ready with crossed keys and deliver the first and second Send of each side. non-trivial = schedule perturbed (drop/dup/reorder/reflect) and completed; distinct = abstract-state hash"
	depth := pick(r, 5, 7)
	maxNodes := pick(r, 8000, 40000)
	// ---- exhaustive part: the first action is dealt to batches
	type node struct{ acts []hsAct }
	replay := func(acts []hsAct, caseID string) *hsPair {
		p := newHsPair(mkViol(r, caseID))
		p.apply(hsAct{Kind: "handshake", To: 0})
		for _, a := range acts {
			p.apply(a)
		}
		return p
	}
	if strings.HasPrefix(r.Only, "exh-") {
		// replay of one exhaustive schedule
		var acts []hsAct
		for _, f := range strings.Split(strings.TrimPrefix(r.Only, "exh-"), "_") {
			if f == "" {
				continue
			}
			var a hsAct
			var k byte
			fmt.Sscanf(f, "%c%d.%d", &k, &a.To, &a.Msg)
			a.Kind = map[byte]string{'d': "deliver", 'h': "handshake", 's': "send"}[k]
			acts = append(acts, a)
		}
		replay(acts, r.Only)
		replay(acts, r.Only).fairSuffix()
		r.Eval(1)
		return
	}
	seen := map[string]bool{}
	frontier := []node{{}}
	nodes := 0
	suffixes := 0
	for d := 1; d <= depth && len(frontier) > 0 && nodes < maxNodes; d++ {
		var next []node
		for _, n := range frontier {
			base := replay(n.acts, "exh")
			if base.dead {
				continue
			}
			for ai, a := range base.actions() {
				if d == 1 && !r.Mine(ai) {
					continue
				}
				acts := append(append([]hsAct{}, n.acts...), a)
				caseID := "exh-" + schedID(acts)
				if r.Only != "" {
					continue
				}
				p := replay(acts, caseID)
				nodes++
				r.Eval(1)
				if p.dead {
					continue
				}
				key := p.abstract()
				if seen[key] {
					continue
				}
				seen[key] = true
				next = append(next, node{acts})
				// fair suffix on a fresh replay of this schedule
				q := replay(acts, caseID)
				suffixes++
				if q.fairSuffix() && q.perturbed {
					r.NonTrivial("exh/" + hashStr(key))
				}
				if nodes >= maxNodes {
					break
				}
			}
			if nodes >= maxNodes {
				break
			}
		}
		frontier = next
	}
	r.Count("exhaustive_nodes", int64(nodes))
	r.Count("exhaustive_distinct_states", int64(len(seen)))
	r.Count("fair_suffixes_run", int64(suffixes))
	// ---- random schedules
	nRand := pick(r, 5000, 60000)
	g := rng.New(r.Seed, "C06", fmt.Sprint(r.Batch))
	for i := 0; i < nRand; i++ {
		caseID := fmt.Sprintf("rand-%d-%d", r.Batch, i)
		cg := g.Fork()
		if !r.Want(caseID) {
			continue
		}
		p := newHsPair(mkViol(r, caseID))
		p.apply(hsAct{Kind: "handshake", To: 0})
		n := cg.Range(1, 40)
		for j := 0; j < n && !p.dead; j++ {
			acts := p.actions()
			// bias toward progress so that deep states are reached
			var a hsAct
			if cg.Chance(1, 2) && p.latest[0] >= 0 {
				from := cg.Intn(2)
				if p.latest[from] >= 0 {
					a = hsAct{Kind: "deliver", To: 1 - from, Msg: p.latest[from]}
				} else {
					a = rng.Pick(cg, acts)
				}
			} else {
				a = rng.Pick(cg, acts)
			}
			p.apply(a)
		}
		r.Eval(1)
		key := p.abstract()
		if p.fairSuffix() && p.perturbed {
			r.NonTrivial("rand/" + hashStr(key))
		}
		if i < 2 {
			acts := []string{}
			for _, a := range p.acts {
				acts = append(acts, a.String())
			}
			r.Sample(map[string]any{"schedule": acts, "final_ranks": p.lastRank, "perturbed": p.perturbed})
		}
	}
}

func schedID(acts []hsAct) string {
	var sb strings.Builder
	for _, a := range acts {
		fmt.Fprintf(&sb, "%c%d.%d_", a.Kind[0], a.To, a.Msg)
	}
	return sb.String()
}

func hashStr(s string) string {
	h := fnv.New64a()
	h.Write([]byte(s))
	return fmt.Sprintf("%x", h.Sum64())
}
