package main

import (
	"bytes"
	"context"
	"encoding/binary"
	"encoding/hex"
	"fmt"
	"os"
	"path/filepath"
	"strings"
	"sync"
	"sync/atomic"
	"time"

	"go.brendoncarroll.net/p2p"
	"go.brendoncarroll.net/p2p/f/x509"
	"go.brendoncarroll.net/p2p/p/kademlia"
	"go.brendoncarroll.net/p2p/p/mbapp"
	"go.brendoncarroll.net/p2p/p/p2pke"
	"go.brendoncarroll.net/p2p/p/p2pmux"
	"go.brendoncarroll.net/p2p/s/fragswarm"
	"go.brendoncarroll.net/p2p/s/p2pkeswarm"
	"go.brendoncarroll.net/p2p/verifhook"

	"verifharness/internal/ev"
	"verifharness/internal/rng"
)

func init() { register("C08", runC08) }

var interesting = []uint64{0, 1, 2, 0x7f, 0x80, 0xff, 0x100, 0xffff, 1 << 31, 1<<32 - 1, 1 << 63, 1<<64 - 1}

// mutate is the generic byte-level mutator (bit flips, truncations, extensions, field overwrites).
func mutate(g *rng.R, b []byte) []byte {
	out := append([]byte{}, b...)
	n := 1 + g.Intn(3)
	for i := 0; i < n; i++ {
		switch g.Intn(9) {
		case 0:
			if len(out) > 0 {
				out[g.Intn(len(out))] ^= 1 << uint(g.Intn(8))
			}
		case 1:
			out = out[:g.Intn(len(out)+1)]
		case 2:
			out = append(out, g.Bytes(1+g.Intn(16))...)
		case 3:
			if len(out) > 0 {
				out[g.Intn(len(out))] = byte(rng.Pick(g, interesting))
			}
		case 4: // overwrite a 4-byte field
			if len(out) >= 4 {
				p := g.Intn(len(out) - 3)
				binary.BigEndian.PutUint32(out[p:], uint32(rng.Pick(g, interesting)))
			}
		case 5: // overwrite an 8-byte field
			if len(out) >= 8 {
				p := g.Intn(len(out) - 7)
				binary.BigEndian.PutUint64(out[p:], rng.Pick(g, interesting))
			}
		case 6: // insert a (possibly over-long) varint
			p := g.Intn(len(out) + 1)
			v := binary.AppendUvarint(nil, rng.Pick(g, interesting))
			if g.Chance(1, 4) {
				v = bytes.Repeat([]byte{0xff}, 1+g.Intn(11))
			}
			out = append(out[:p], append(v, out[p:]...)...)
		case 7: // duplicate a slice of itself
			if len(out) > 1 {
				p := g.Intn(len(out))
				out = append(out, out[p:]...)
			}
		default:
			if len(out) > 0 {
				p := g.Intn(len(out))
				out = append(out[:p], out[p+1:]...)
			}
		}
	}
	return out
}

type c08Ctx struct {
	r      *ev.Run
	g      *rng.R
	log    *os.File
	inputs atomic.Int64
}

// guard runs fn and turns a panic into a violation with the exact input as witness.
func (c *c08Ctx) guard(layer, caseID string, input []byte, fn func()) (panicked bool) {
	c.inputs.Add(1)
	defer func() {
		if p := recover(); p != nil {
			panicked = true
			c.r.Violate("C08/panic/"+layer, caseID, fmt.Sprintf("%s panicked on hostile input: %v", layer, p), map[string]any{"layer": layer, "input_hex": hex.EncodeToString(trunc(input, 4096)), "input_len": len(input)})
		}
	}()
	fn()
	return false
}

func trunc(b []byte, n int) []byte {
	if len(b) > n {
		return b[:n]
	}
	return b
}

// record appends an input to the on-disk log BEFORE it is delivered to a layer running in library goroutines.
func (c *c08Ctx) record(layer string, input []byte) {
	c.inputs.Add(1)
	if c.log != nil {
		fmt.Fprintf(c.log, "%s %s\n", layer, hex.EncodeToString(trunc(input, 2048)))
	}
}

// c08n: how many inputs a phase gets. Phases that call the library synchronously from one goroutine gain nothing from the
// race detector and get an eighth of the inputs in that pass.
func c08n(c *c08Ctx, quick, thorough int, sequential bool) int {
	n := pick(c.r, quick, thorough)
	if raceEnabled && sequential {
		n /= 8
	}
	return n
}

func runC08(r *ev.Run) {
	r.Rule = "hostile bytes to every packet-facing layer. Synchronous entry points (address parsers, key parsers, peer-id text, the five demultiplexers, P2PKE Session.Deliver in every handshake state and role, Channel.Deliver with 0-3 occupied slots, complete handshakes by holders of other keys on a bound channel (as initiator and answering its rekey), DHT handlers and cache calls) are called in-process with panic capture (the DHT handlers also from 8 goroutines at once on one node while peers are added and removed); layers that run in library goroutines (fragswarm, mbapp tell/ask/reply paths, multiplexers, p2pkeswarm) sit on the harness's wire transport (quicswarm faces a raw quic-go client that authenticates honestly and then writes hostile frames: length > mtu, length > remaining, zero, half a header, boundary lengths, stream reset mid-frame, oversize and reset uni-streams; sshswarm faces a raw x/crypto/ssh client that authenticates honestly and then sends global requests with odd names and empty / MTU+-1 / 256 KiB payloads, channel opens and abrupt reconnects) and each input is appended to an on-disk log before it is injected, the child process being the crash detector; generators: uniform random, structure-aware field mutations of genuine packets (every header field set to boundary values, over-long / truncated varints, wrong body lengths), contradiction sequences (a first packet creating reassembly state followed by packets with the same key whose part count, index, total size or body length disagree) and bit-flips/truncations; after each batch one valid message must still get through every layer. non-trivial = input got past the layer's first length check; distinct = (layer, generator, field/value class)"
	g := rng.New(r.Seed, "C08", fmt.Sprint(r.Batch))
	c := &c08Ctx{r: r, g: g}
	if r.OutDir != "" {
		f, err := os.Create(filepath.Join(r.OutDir, fmt.Sprintf("inputs-b%d.log", r.Batch)))
		if err == nil {
			c.log = f
			defer f.Close()
		}
	}
	for _, ph := range []struct {
		name string
		fn   func(*c08Ctx)
	}{{"parsers", c08Parsers}, {"mux", c08Mux}, {"sessions", c08Sessions}, {"channels", c08Channels}, {"foreign-handshakes", c08ForeignHandshakes}, {"kademlia", c08Kademlia}, {"layers", c08Layers}, {"quic", c08QUIC}, {"ssh", c08SSH}} {
		t0 := time.Now()
		ph.fn(c)
		r.Count("phase_ms_"+ph.name, time.Since(t0).Milliseconds())
	}
	r.Eval(c.inputs.Load())
	r.Count("inputs", c.inputs.Load())
}

// ---- A: parsers ----

func c08Parsers(c *c08Ctx) {
	g := c.g.Fork()
	kinds := buildAddrKinds()
	n := c08n(c, 12000, 60000, true)
	seeds := map[string][][]byte{}
	for _, k := range kinds {
		for i := 0; i < 8; i++ {
			a, _ := k.gen(g)
			t, _ := a.MarshalText()
			seeds[k.name] = append(seeds[k.name], t)
		}
	}
	for _, k := range kinds {
		for i := 0; i < n/len(kinds); i++ {
			var in []byte
			gen := "mutated"
			switch g.Intn(6) {
			case 0:
				in = g.Bytes(g.Intn(80))
				gen = "random"
			case 1, 2:
				in = addrFieldVariants(g, rng.Pick(g, seeds[k.name]))
				gen = "field-replaced"
			default:
				in = mutate(g, rng.Pick(g, seeds[k.name]))
			}
			k := k
			if !c.guard("ParseAddr/"+k.name, "parsers", in, func() { k.parse(in) }) {
				c.r.NonTrivial("parseaddr/" + k.name + "/" + gen)
			}
		}
	}
	// keys and peer ids
	pub := keyN(1).Pub
	goodPub := x509.MarshalPublicKey(nil, &pub)
	priv := keyN(1).Priv
	goodPriv := x509.MarshalPrivateKey(nil, &priv)
	for i := 0; i < n; i++ {
		var in []byte
		gen := "mutated"
		switch g.Intn(8) {
		case 0:
			in = g.Bytes(g.Intn(100))
			gen = "random"
		case 1:
			in = mutate(g, goodPriv)
		case 2:
			in = derShorten(g, goodPub)
			gen = "der-shortened"
		case 3:
			in = derShorten(g, goodPriv)
			gen = "der-shortened"
		default:
			in = mutate(g, goodPub)
		}
		ok := !c.guard("x509.ParsePublicKey", "keys", in, func() {
			if k, err := x509.ParsePublicKey(in); err == nil {
				x509.MarshalPublicKey(nil, &k)
				pkeReg.LoadVerifier(&k)
			}
		})
		ok = !c.guard("x509.ParsePrivateKey", "keys", in, func() {
			if k, err := x509.ParsePrivateKey(in); err == nil {
				pkeReg.LoadSigner(&k)
				pkeReg.PublicFromPrivate(&k)
			}
		}) && ok
		ok = !c.guard("Registry.ParseVerifier", "keys", in, func() {
			if v, err := pkeReg.ParseVerifier(in); err == nil {
				v.Verify([]byte("m"), g.Bytes(g.Intn(80)))
			}
		}) && ok
		if ok {
			c.r.NonTrivial("keys/" + gen)
		}
		txt := mutate(g, []byte(p2p.PeerID{1, 2, 3}.String()))
		c.guard("PeerID.UnmarshalText", "peerid", txt, func() {
			var id p2p.PeerID
			id.UnmarshalText(txt)
		})
	}
}

// ---- B: demultiplexers ----

func c08Mux(c *c08Ctx) {
	g := c.g.Fork()
	n := c08n(c, 16000, 120000, true)
	for _, k := range frameKinds() {
		var seeds [][]byte
		for i := 0; i < 8; i++ {
			ch, _ := k.genC(g)
			pl, _ := genMuxPayload(g)
			seeds = append(seeds, p2p.VecBytes(nil, k.mux(ch, p2p.IOVec{pl})))
		}
		for i := 0; i < n; i++ {
			var in []byte
			gen := "mutated"
			switch g.Intn(6) {
			case 0:
				in = g.Bytes(g.Intn(40))
				gen = "random"
			case 1: // a length prefix with a boundary value, then some bytes
				in = append(binary.AppendUvarint(nil, rng.Pick(g, interesting)), g.Bytes(g.Intn(20))...)
				gen = "boundary-length"
			default:
				in = mutate(g, rng.Pick(g, seeds))
			}
			k := k
			if !c.guard("p2pmux.demux/"+k.name, "mux", in, func() { k.demux(in) }) {
				c.r.NonTrivial("demux/" + k.name + "/" + gen)
			}
		}
	}
}

// ---- C: P2PKE sessions and channels ----

// sessionAt returns an honest session driven to the given handshake state, and the genuine messages seen so far.
func sessionAt(isInit bool, state int) (*p2pke.Session, [][]byte) {
	a := newSession(keyN(kA), true, pkeT0)
	b := newSession(keyN(kB), false, pkeT0)
	now := pkeT0.Add(time.Second)
	var msgs [][]byte
	m0 := a.Handshake(nil)
	msgs = append(msgs, m0)
	step := 0
	pickS := func() *p2pke.Session {
		if isInit {
			return a
		}
		return b
	}
	if state <= step {
		return pickS(), msgs
	}
	_, m1, _ := b.Deliver(nil, m0, now)
	msgs = append(msgs, m1)
	step++
	if state <= step {
		return pickS(), msgs
	}
	_, m2, _ := a.Deliver(nil, m1, now)
	msgs = append(msgs, m2)
	step++
	if state <= step {
		return pickS(), msgs
	}
	_, m3, _ := b.Deliver(nil, m2, now)
	msgs = append(msgs, m3)
	step++
	if state <= step {
		return pickS(), msgs
	}
	a.Deliver(nil, m3, now)
	d1, _ := a.Send(nil, []byte("hello from a"), now)
	d2, _ := b.Send(nil, []byte("hello from b"), now)
	msgs = append(msgs, d1, d2)
	if state > 4 {
		a.Deliver(nil, d2, now)
		b.Deliver(nil, d1, now)
	}
	return pickS(), msgs
}

func c08Sessions(c *c08Ctx) {
	g := c.g.Fork()
	n := c08n(c, 5000, 20000, true)
	for i := 0; i < n; i++ {
		isInit := g.Bool()
		state := g.Intn(6)
		s, msgs := sessionAt(isInit, state)
		now := pkeT0.Add(2 * time.Second)
		steps := 1 + g.Intn(4)
		for j := 0; j < steps; j++ {
			var in []byte
			gen := "mutated-genuine"
			switch g.Intn(6) {
			case 0:
				in = g.Bytes(g.Intn(200))
				gen = "random"
			case 1: // right counter, hostile body
				in = append(hdr(uint32(g.Intn(20))), g.Bytes(g.Intn(300))...)
				gen = "counter+random-body"
			case 2: // InitHello-shaped: ephemeral + payload with a hostile length trailer
				body := append(g.Bytes(32), g.Bytes(g.Intn(60))...)
				body = append(body, byte(rng.Pick(g, interesting)), byte(rng.Pick(g, interesting)))
				in = append(hdr(0), body...)
				gen = "inithello-length-trailer"
			default:
				in = mutate(g, rng.Pick(g, msgs))
			}
			if !c.guard(fmt.Sprintf("Session.Deliver/init=%v", isInit), "session", in, func() {
				s.Deliver(nil, in, now)
				s.Handshake(nil)
				s.IsReady()
				s.Send(nil, []byte("x"), now)
			}) {
				c.r.NonTrivial(fmt.Sprintf("session/init=%v/state=%d/%s", isInit, state, gen))
			}
		}
	}
}

// c08ForeignHandshakes: not malformed bytes but well-formed handshakes from the wrong party: a holder of another key runs a
// complete handshake on a channel that is bound to someone else, as initiator and as the one answering the channel's rekey
// (the C05 scenarios). Only a crash counts here: the scenarios report into a scratch run, the child process is the detector.
func c08ForeignHandshakes(c *c08Ctx) {
	if c.r.Batch != 0 {
		return
	}
	verifhook.EnableSink(true)
	defer verifhook.EnableSink(false)
	scratch := ev.NewRun("C08", c.r.Tier, c.r.Seed, c.r.Batch, c.r.NBatch, "")
	okKey, otherOK := keyN(31), keyN(34)
	for _, pd := range predicates(okKey, keyN(32)) {
		if !pd.fn(&otherOK.Pub) || pd.name == "reject-all" {
			continue
		}
		for _, attack := range []string{"foreign-initiates", "foreign-answers-rekey", "foreign-answers-rekey-with-data"} {
			c.record("Channel/foreign-handshake", []byte(pd.name+"/"+attack))
			c05BoundAs(scratch, c.g.Fork(), "c08-bound-"+pd.name+"-"+attack, pd, attack, "other-accepted-key", okKey, otherOK, "C08")
			c.r.NonTrivial("channel/foreign-handshake/" + attack)
		}
	}
}

func c08Channels(c *c08Ctx) {
	g := c.g.Fork()
	n := c08n(c, 150, 600, false)
	for i := 0; i < n; i++ {
		// a pair of channels; progress them to a random point, then feed hostile bytes to one of them
		tm := slowTimings()
		var mu sync.Mutex
		var aOut, bOut [][]byte
		a := p2pke.NewChannel(p2pke.ChannelConfig{Registry: pkeReg, PrivateKey: keyN(kA).Priv, Logger: pkeNop, AcceptKey: func(*x509.PublicKey) bool { return true },
			Send: func(x []byte) { mu.Lock(); aOut = append(aOut, append([]byte{}, x...)); mu.Unlock() }, HandshakeBackoff: tm.HandshakeBackoff, RekeyAfterTime: tm.RekeyAfterTime, RejectAfterTime: tm.RejectAfterTime, KeepAliveTimeout: tm.KeepAliveTimeout})
		b := p2pke.NewChannel(p2pke.ChannelConfig{Registry: pkeReg, PrivateKey: keyN(kB).Priv, Logger: pkeNop, AcceptKey: func(*x509.PublicKey) bool { return true },
			Send: func(x []byte) { mu.Lock(); bOut = append(bOut, append([]byte{}, x...)); mu.Unlock() }, HandshakeBackoff: tm.HandshakeBackoff, RekeyAfterTime: tm.RekeyAfterTime, RejectAfterTime: tm.RejectAfterTime, KeepAliveTimeout: tm.KeepAliveTimeout})
		ctx, cf := context.WithTimeout(context.Background(), 300*time.Millisecond)
		go a.Send(ctx, p2p.IOVec{[]byte("first")})
		var all [][]byte
		rounds := g.Intn(6)
		for k := 0; k < 40 && rounds > 0; k++ {
			mu.Lock()
			ao, bo := aOut, bOut
			aOut, bOut = nil, nil
			mu.Unlock()
			for _, m := range ao {
				all = append(all, m)
				b.Deliver(nil, m)
				rounds--
			}
			for _, m := range bo {
				all = append(all, m)
				a.Deliver(nil, m)
				rounds--
			}
			time.Sleep(time.Millisecond)
		}
		victim := a
		if g.Bool() {
			victim = b
		}
		occupied := 0
		for _, sl := range victim.VerifSlots() {
			if sl.Occupied {
				occupied++
			}
		}
		for j := 0; j < 30; j++ {
			var in []byte
			if len(all) > 0 && g.Chance(4, 5) {
				in = mutate(g, rng.Pick(g, all))
			} else {
				in = append(hdr(uint32(g.Intn(20))), g.Bytes(g.Intn(200))...)
			}
			if !c.guard("Channel.Deliver", "channel", in, func() { victim.Deliver(nil, in) }) {
				c.r.NonTrivial(fmt.Sprintf("channel/slots=%d", occupied))
			}
		}
		cf()
		a.Close()
		b.Close()
	}
}

// ---- D: DHT handlers and cache ----

func c08Kademlia(c *c08Ctx) {
	g := c.g.Fork()
	n := c08n(c, 12000, 40000, true)
	var local p2p.PeerID
	g.Fill(local[:])
	sizes := []int{0, 1, 7, 8, 9, 100, 255, 256, 300}
	for i := 0; i < n; i++ {
		ps := rng.Pick(g, sizes)
		var node *kademlia.DHTNode
		func() {
			// constructor parameters are configuration, not network input: a panic here is not judged
			defer func() { recover() }()
			node = kademlia.NewDHTNode(kademlia.DHTNodeParams{LocalID: local, PeerCacheSize: ps, DataCacheSize: rng.Pick(g, []int{0, 1, 8})})
		}()
		if node == nil {
			continue
		}
		for j := 0; j < 12; j++ {
			key := g.Bytes(g.Intn(65))
			var id p2p.PeerID
			g.Fill(id[:])
			if g.Chance(1, 4) {
				id = local
			}
			limit := int(int64(rng.Pick(g, interesting)))
			if g.Bool() {
				limit = -limit
			}
			ttl := rng.Pick(g, interesting)
			in := append(append([]byte{byte(j)}, key...), id[:]...)
			ok := !c.guard("DHTNode.handlers", "dht", in, func() {
				node.AddPeer(id, key)
				node.HandlePut(id, kademlia.PutReq{Key: key, Value: key, TTLms: ttl})
				node.HandleGet(id, kademlia.GetReq{Key: key})
				node.HandleFindNode(id, kademlia.FindNodeReq{Target: id, Limit: limit})
				node.ListPeers(limit)
				node.ListNodeInfos(key, limit)
				node.WouldAdd(key)
				node.GetPeer(id)
				_ = node.String()
			})
			if ok {
				c.r.NonTrivial(fmt.Sprintf("dht/peers=%d/keylen=%d", ps, len(key)/16))
			}
		}
	}
	// the same handlers the way receive workers call them: from several goroutines at once, on one node, while peers come
	// and go. A runtime-fatal error (concurrent map access) ends the child, which is the detector.
	{
		node := kademlia.NewDHTNode(kademlia.DHTNodeParams{LocalID: local, PeerCacheSize: 64, DataCacheSize: 8})
		var wg sync.WaitGroup
		per := c08n(c, 4000, 20000, false)
		for w := 0; w < 8; w++ {
			lg := g.Fork()
			wg.Add(1)
			go func(w int) {
				defer wg.Done()
				for i := 0; i < per; i++ {
					var id p2p.PeerID
					lg.Fill(id[:])
					id[0] = local[0]
					if lg.Chance(1, 3) {
						id[1] = local[1]
					}
					key := lg.Bytes(lg.Intn(40))
					limit := int(int64(rng.Pick(lg, interesting)))
					op := lg.Intn(6)
					c.guard("DHTNode.handlers/concurrent", "dht-concurrent", append([]byte{byte(op)}, key...), func() {
						switch op {
						case 0:
							node.AddPeer(id, key)
						case 1:
							node.RemovePeer(id)
						case 2:
							node.HandlePut(id, kademlia.PutReq{Key: key, Value: key, TTLms: rng.Pick(lg, interesting)})
						case 3:
							node.HandleGet(id, kademlia.GetReq{Key: key})
						case 4:
							node.HandleFindNode(id, kademlia.FindNodeReq{Target: id, Limit: limit})
						default:
							node.ListNodeInfos(key, limit)
							node.GetPeer(id)
						}
					})
				}
			}(w)
		}
		wg.Wait()
		c.r.NonTrivial("dht/concurrent-handlers")
	}
	// cache calls with hostile keys and prefix lengths
	for i := 0; i < n/4; i++ {
		loc := g.Bytes(g.Range(0, 5))
		var cache *kademlia.Cache[int]
		max := g.Intn(50)
		if c.guard("kademlia.NewCache", "cache", loc, func() {
			defer func() {
				// documented constructor panics (max < 8*len(locus)*minPerBucket) are API misuse, not hostile input
				if p := recover(); p != nil {
					cache = nil
				}
			}()
			cache = kademlia.NewCache[int](loc, max, 0)
		}) || cache == nil {
			continue
		}
		for j := 0; j < 20; j++ {
			key := g.Bytes(g.Intn(9))
			prefix := g.Bytes(g.Intn(5))
			p := make([]byte, len(prefix))
			copy(p, prefix)
			nbits := g.Intn(len(p)*8 + 1)
			now := time.Unix(int64(g.Intn(100)), 0)
			c.guard("kademlia.Cache", "cache", append(append([]byte{}, key...), p...), func() {
				cache.Put(key, j, now, now.Add(time.Duration(g.Intn(5))*time.Second))
				cache.Get(key, now)
				cache.ForEach(key, func(kademlia.Entry[int]) bool { return true })
				cache.ForEachCloser(key, func(kademlia.Entry[int]) bool { return true })
				cache.ForEachMatching(p, nbits, func(kademlia.Entry[int]) bool { return true })
				cache.Closest(key)
				cache.WouldAdd(key, now)
				cache.Expire(nil, now)
				if g.Chance(1, 4) {
					cache.Delete(key)
				}
			})
		}
		c.r.NonTrivial(fmt.Sprintf("cache/locus=%d", len(loc)))
	}
}

// ---- E: layers running in library goroutines, on the wire transport ----

type c08Layer struct {
	name string
	// build creates the layer under test at wire node 0 and a genuine sender at node 1; returns a function that sends one
	// valid message through and reports whether it arrived (liveness probe), and a closer.
	build func(net *wireNet) (probe func() bool, closeAll func())
	// genuine returns captured genuine packets addressed to node 0
	fields func(g *rng.R, pkt []byte) []byte // structure-aware mutation
	contra func(g *rng.R, pkt []byte) [][]byte
}

func uv(x uint64) []byte { return binary.AppendUvarint(nil, x) }

func fragFields(g *rng.R, pkt []byte) []byte {
	// 3 uvarints: id, part, total, then data
	id := uint64(g.Intn(4))
	part := rng.Pick(g, interesting)
	total := rng.Pick(g, interesting)
	if g.Bool() {
		part = uint64(g.Intn(6))
	}
	if g.Bool() {
		total = uint64(g.Intn(8))
	}
	out := append(append(uv(id), uv(part)...), uv(total)...)
	return append(out, g.Bytes(g.Intn(40))...)
}

func fragContra(g *rng.R, pkt []byte) [][]byte {
	id := uint64(1000 + g.Intn(1000))
	mk := func(part, total uint64, n int) []byte {
		return append(append(append(uv(id), uv(part)...), uv(total)...), g.Bytes(n)...)
	}
	lat := []uint64{0, 1, 2, 3, 5, 127, 128, 254, 255}
	var seq [][]byte
	t1 := rng.Pick(g, lat[2:])
	seq = append(seq, mk(uint64(g.Intn(int(t1))), t1, g.Intn(30)))
	for i := 0; i < 1+g.Intn(4); i++ {
		t2 := rng.Pick(g, lat[1:])
		p2 := uint64(g.Intn(int(t2)))
		seq = append(seq, mk(p2, t2, g.Intn(30)))
	}
	return seq
}

func mbHeader(isAsk, isReply bool, errCode uint8, origin, counter, total uint32, idx, count uint16, timeout uint32) []byte {
	h := make([]byte, mbapp.HeaderSize)
	hh := mbapp.Header(h)
	hh.SetIsAsk(isAsk)
	hh.SetIsReply(isReply)
	hh.SetErrorCode(errCode)
	hh.SetOriginTime(mbapp.PhaseTime32(origin))
	hh.SetCounter(counter)
	hh.SetTotalSize(total)
	hh.SetPartIndex(idx)
	hh.SetPartCount(count)
	hh.SetTimeout(timeout)
	return h
}

func mbFields(g *rng.R, pkt []byte) []byte {
	v32 := func() uint32 { return uint32(rng.Pick(g, interesting)) }
	v16 := func() uint16 { return uint16(rng.Pick(g, interesting)) }
	h := mbHeader(g.Bool(), g.Bool(), uint8(g.Intn(256)), v32(), uint32(g.Intn(5)), v32(), v16(), v16(), v32())
	if g.Bool() {
		h = mbHeader(g.Bool(), g.Bool(), 0, 7, uint32(g.Intn(5)), uint32(g.Intn(300)), uint16(g.Intn(5)), uint16(g.Intn(6)), 1000)
	}
	return append(h, g.Bytes(g.Intn(60))...)
}

func mbContra(g *rng.R, pkt []byte) [][]byte {
	origin, counter := uint32(9000+g.Intn(100)), uint32(50+g.Intn(1000))
	isAsk, isReply := g.Chance(1, 3), false
	if isAsk {
		isReply = g.Bool()
	}
	lat16 := []uint16{0, 1, 2, 3, 4, 255, 256, 65535}
	lat32 := []uint32{0, 1, 2, 10, 40, 100, 399, 400, 401, 1 << 31, 1<<32 - 1}
	var seq [][]byte
	for i := 0; i < 2+g.Intn(4); i++ {
		count := rng.Pick(g, lat16)
		idx := rng.Pick(g, lat16)
		if g.Bool() && count > 0 {
			idx = uint16(g.Intn(int(count)))
		}
		seq = append(seq, append(mbHeader(isAsk, isReply, 0, origin, counter, rng.Pick(g, lat32), idx, count, 100000), g.Bytes(g.Intn(80))...))
	}
	return seq
}

func c08LayerList() []c08Layer {
	const innerMTU = 200
	return []c08Layer{
		{"fragswarm", func(net *wireNet) (func() bool, func()) {
			d := fragswarm.New[wireAddr](net.node(0), 4000)
			s := fragswarm.New[wireAddr](net.node(1), 4000)
			return tellProbe(net, d, s), func() { d.Close(); s.Close() }
		}, fragFields, fragContra},
		{"mbapp", func(net *wireNet) (func() bool, func()) {
			d := mbapp.New[wireAddr, x509.PublicKey](net.node(0), 400)
			s := mbapp.New[wireAddr, x509.PublicKey](net.node(1), 400)
			ctx, cf := context.WithCancel(context.Background())
			// the destination serves asks and makes asks of its own (so that reply paths have state to confuse)
			go func() {
				for {
					if d.ServeAsk(ctx, func(_ context.Context, resp []byte, m p2p.Message[wireAddr]) int { return copy(resp, "pong") }) != nil {
						return
					}
				}
			}()
			go func() {
				for ctx.Err() == nil {
					actx, acf := context.WithTimeout(ctx, 20*time.Millisecond)
					d.Ask(actx, make([]byte, 64), wireAddr{1}, p2p.IOVec{[]byte("ping")})
					acf()
				}
			}()
			return tellProbe(net, d, s), func() { cf(); d.Close(); s.Close() }
		}, mbFields, mbContra},
		{"mux-string", func(net *wireNet) (func() bool, func()) {
			dm := p2pmux.NewStringMux[wireAddr](net.node(0))
			sm := p2pmux.NewStringMux[wireAddr](net.node(1))
			d, s := dm.Open("chan"), sm.Open("chan")
			return tellProbe(net, d, s), func() { d.Close(); s.Close(); net.node(0).Close(); net.node(1).Close() }
		}, func(g *rng.R, pkt []byte) []byte {
			return append(append(uv(rng.Pick(g, interesting)), g.Bytes(g.Intn(12))...), pkt[:min(len(pkt), g.Intn(20))]...)
		}, nil},
		{"mux-varint", func(net *wireNet) (func() bool, func()) {
			dm := p2pmux.NewVarintMux[wireAddr](net.node(0))
			sm := p2pmux.NewVarintMux[wireAddr](net.node(1))
			d, s := dm.Open(5), sm.Open(5)
			return tellProbe(net, d, s), func() { d.Close(); s.Close(); net.node(0).Close(); net.node(1).Close() }
		}, func(g *rng.R, pkt []byte) []byte { return append(uv(rng.Pick(g, interesting)), g.Bytes(g.Intn(12))...) }, nil},
		{"mux-uint32", func(net *wireNet) (func() bool, func()) {
			dm := p2pmux.NewUint32Mux[wireAddr](net.node(0))
			sm := p2pmux.NewUint32Mux[wireAddr](net.node(1))
			d, s := dm.Open(5), sm.Open(5)
			return tellProbe(net, d, s), func() { d.Close(); s.Close(); net.node(0).Close(); net.node(1).Close() }
		}, func(g *rng.R, pkt []byte) []byte { return g.Bytes(g.Intn(7)) }, nil},
		{"p2pkeswarm", func(net *wireNet) (func() bool, func()) {
			d := p2pkeswarm.New[wireAddr](net.node(0), keyN(100).Priv)
			s := p2pkeswarm.New[wireAddr](net.node(1), keyN(101).Priv)
			return tellProbe(net, d, s), func() { d.Close(); s.Close() }
		}, func(g *rng.R, pkt []byte) []byte {
			return append(hdr(uint32(rng.Pick(g, interesting))), g.Bytes(g.Intn(200))...)
		}, nil},
	}
}

// tellProbe returns a liveness probe: s tells d one valid message (over the wire in prompt mode) and d must receive it.
func tellProbe[A p2p.Addr](net *wireNet, d, s p2p.Swarm[A]) func() bool {
	ctx := context.Background()
	var got atomic.Int64
	go func() {
		for {
			if err := d.Receive(ctx, func(m p2p.Message[A]) {
				if bytes.HasPrefix(m.Payload, []byte("PROBE")) {
					got.Add(1)
				}
			}); err != nil {
				return
			}
		}
	}()
	go func() {
		for {
			if err := s.Receive(ctx, func(m p2p.Message[A]) {}); err != nil {
				return
			}
		}
	}()
	dst := d.LocalAddrs()[0]
	return func() bool {
		before := got.Load()
		for try := 0; try < 40; try++ {
			tctx, cf := context.WithTimeout(ctx, time.Second)
			s.Tell(tctx, dst, p2p.IOVec{[]byte(fmt.Sprintf("PROBE-%d", try))})
			cf()
			for w := 0; w < 50; w++ {
				if got.Load() > before {
					return true
				}
				time.Sleep(time.Millisecond)
			}
		}
		return false
	}
}

func c08Layers(c *c08Ctx) {
	g := c.g.Fork()
	n := c08n(c, 12000, 40000, false)
	for _, layer := range c08LayerList() {
		net := newWireNet(200)
		net.setPrompt(true)
		probe, closeAll := layer.build(net)
		// genuine traffic first (also captures genuine packets)
		if !probe() {
			c.r.Inconclusive("c08: layer " + layer.name + " does not pass a valid message before any hostile input")
			closeAll()
			continue
		}
		var genuine [][]byte
		for _, m := range net.take() {
			if m.Dst.N == 0 {
				genuine = append(genuine, m.Bytes)
			}
		}
		src := wireAddr{1}
		inject := func(gen string, in []byte) {
			c.record(layer.name+"/"+gen, in)
			net.inject(src, wireAddr{0}, in)
		}
		for i := 0; i < n; i++ {
			switch x := g.Intn(10); {
			case x == 0:
				inject("random", g.Bytes(g.Intn(220)))
			case x < 4 && layer.fields != nil:
				inject("fields", layer.fields(g, rng.Pick(g, genuine)))
			case x < 6 && layer.contra != nil:
				for _, p := range layer.contra(g, rng.Pick(g, genuine)) {
					inject("contradiction", p)
				}
			default:
				if len(genuine) > 0 {
					inject("mutated-genuine", mutate(g, rng.Pick(g, genuine)))
				}
			}
			if i%256 == 255 {
				// let the layer's workers drain
				for w := 0; w < 2000 && len(net.node(0).inbox) > 0; w++ {
					time.Sleep(100 * time.Microsecond)
				}
				net.take()
			}
		}
		for w := 0; w < 20000 && len(net.node(0).inbox) > 0; w++ {
			time.Sleep(100 * time.Microsecond)
		}
		time.Sleep(5 * time.Millisecond)
		if !probe() {
			c.r.Violate("C08/not-serving/"+layer.name, "layers", "after the hostile inputs the layer no longer passes a valid message (it did before)", map[string]any{"layer": layer.name, "inputs_log": fmt.Sprintf("inputs-b%d.log", c.r.Batch)})
		} else {
			c.r.NonTrivial("layer/" + layer.name + "/survived-and-serving")
			c.r.NonTrivial("layer/" + layer.name + "/contradictions")
		}
		closeAll()
		if layer.name == "fragswarm" {
			c.r.Sample(map[string]any{"layer": layer.name, "genuine_packets_captured": len(genuine), "hostile_inputs": n, "example_contradiction": hexList(fragContra(g, nil))})
		}
	}
}

func hexList(bs [][]byte) []string {
	var out []string
	for _, b := range bs {
		out = append(out, hex.EncodeToString(trunc(b, 24)))
	}
	return out
}

// addrFieldVariants: structure-aware mutation of a genuine address text: the text is cut at its separators and one field at a
// time is replaced by a small hostile token (empty, a lone bracket, an unbalanced bracket, separators, numbers at the limits).
func addrFieldVariants(g *rng.R, text []byte) []byte {
	const seps = "@:/+[]%,;=#?"
	type span struct{ a, b int }
	var fields []span
	start := 0
	for i := 0; i <= len(text); i++ {
		if i == len(text) || strings.IndexByte(seps, text[i]) >= 0 {
			fields = append(fields, span{start, i})
			start = i + 1
		}
	}
	tokens := []string{"", "[", "]", "[]", "[:", ":]", "[[", "]]", "[::1", "::1]", "[::1]", "::", ":", "@", "@@", "/", "//", "%", "%25", "0", "-1", "65535", "65536", "4294967296", "99999999999999999999", " ", "\x00", "\xff", ".", "..", "a"}
	f := fields[g.Intn(len(fields))]
	tok := rng.Pick(g, tokens)
	out := append([]byte{}, text[:f.a]...)
	out = append(out, tok...)
	out = append(out, text[f.b:]...)
	return out
}

// derShorten: structure-aware mutation of a DER encoding: one element (at any depth) loses 1..n bytes from the end of its
// contents or is emptied, and the lengths of the enclosing elements are corrected, so that the result is well-formed DER
// with an unusually short field (an OID of one or two arcs, an empty bit string, ...).
func derShorten(g *rng.R, der []byte) []byte {
	type node struct {
		tag      byte
		children []*node
		val      []byte
	}
	var parse func(b []byte, depth int) ([]*node, bool)
	parse = func(b []byte, depth int) ([]*node, bool) {
		var out []*node
		for len(b) > 0 {
			if len(b) < 2 {
				return nil, false
			}
			tag, l, hdr := b[0], int(b[1]), 2
			if l&0x80 != 0 {
				nb := l & 0x7f
				if nb == 0 || nb > 3 || len(b) < 2+nb {
					return nil, false
				}
				l = 0
				for _, x := range b[2 : 2+nb] {
					l = l<<8 | int(x)
				}
				hdr = 2 + nb
			}
			if len(b) < hdr+l {
				return nil, false
			}
			n := &node{tag: tag, val: b[hdr : hdr+l]}
			if tag&0x20 != 0 && depth < 8 {
				if ch, ok := parse(n.val, depth+1); ok {
					n.children = ch
				}
			}
			out = append(out, n)
			b = b[hdr+l:]
		}
		return out, true
	}
	roots, ok := parse(der, 0)
	if !ok || len(roots) == 0 {
		return mutate(g, der)
	}
	var all []*node
	var walk func(ns []*node)
	walk = func(ns []*node) {
		for _, n := range ns {
			all = append(all, n)
			walk(n.children)
		}
	}
	walk(roots)
	victim := all[g.Intn(len(all))]
	cut := 0
	if len(victim.val) > 0 {
		cut = 1 + g.Intn(len(victim.val))
		if g.Chance(1, 2) && len(victim.val) > 4 {
			cut = 1 + g.Intn(4)
		}
	}
	victim.val = victim.val[:len(victim.val)-cut]
	victim.children = nil
	var ser func(n *node) []byte
	ser = func(n *node) []byte {
		body := n.val
		if n.children != nil {
			body = nil
			for _, c := range n.children {
				body = append(body, ser(c)...)
			}
		}
		out := []byte{n.tag}
		switch {
		case len(body) < 0x80:
			out = append(out, byte(len(body)))
		case len(body) < 0x100:
			out = append(out, 0x81, byte(len(body)))
		default:
			out = append(out, 0x82, byte(len(body)>>8), byte(len(body)))
		}
		return append(out, body...)
	}
	var out []byte
	for _, n := range roots {
		out = append(out, ser(n)...)
	}
	return out
}
