package main

import (
	"context"
	"fmt"
	"sync"
	"sync/atomic"
	"time"

	"go.brendoncarroll.net/p2p"
	"go.brendoncarroll.net/p2p/p/p2pmux"
	"go.brendoncarroll.net/p2p/s/memswarm"

	"verifharness/internal/ev"
	"verifharness/internal/gor"
	"verifharness/internal/rng"
)

//go:noinline
func c12muxBlocked(fn func() error) error { return fn() }

type c12muxHandle struct {
	ch     int
	inc    int
	sw     p2p.AskSwarm[memAddr]
	closes int
}

// c12MuxLifecycle: channel swarms of one multiplexer are opened, closed, opened again under the same channel id and closed
// again through stale handles (repeated Close), in seeded histories. At the first Close of every handle two goroutines are
// blocked in its Receive and two in its ServeAsk with non-expiring contexts: all four must return a non-nil error, and so must
// calls made on the handle afterwards. A channel is only re-opened when every handle of that channel has been closed.
func c12MuxLifecycle(r *ev.Run, g *rng.R) {
	caseID := "mux-channel-lifecycle"
	if !r.Want(caseID) {
		return
	}
	kinds := []string{"string", "varint", "uint16", "uint32", "uint64"}
	histories := pick(r, 40, 400)
	conclusive := 0
	for h := 0; h < histories; h++ {
		kind := kinds[h%len(kinds)]
		realm := memswarm.NewRealm()
		inner := realm.NewSwarm()
		var open func(ch int) p2p.AskSwarm[memAddr]
		switch kind {
		case "string":
			m := p2pmux.NewStringAskMux[memAddr](inner)
			open = func(ch int) p2p.AskSwarm[memAddr] { return m.Open(fmt.Sprintf("ch-%d", ch)) }
		case "varint":
			m := p2pmux.NewVarintAskMux[memAddr](inner)
			open = func(ch int) p2p.AskSwarm[memAddr] { return m.Open(uint64(ch) << 20) }
		case "uint16":
			m := p2pmux.NewUint16AskMux[memAddr](inner)
			open = func(ch int) p2p.AskSwarm[memAddr] { return m.Open(uint16(ch)) }
		case "uint32":
			m := p2pmux.NewUint32AskMux[memAddr](inner)
			open = func(ch int) p2p.AskSwarm[memAddr] { return m.Open(uint32(ch)) }
		default:
			m := p2pmux.NewUint64AskMux[memAddr](inner)
			open = func(ch int) p2p.AskSwarm[memAddr] { return m.Open(uint64(ch)) }
		}
		var handles []*c12muxHandle
		allClosed := func(ch int) bool {
			for _, x := range handles {
				if x.ch == ch && x.closes == 0 {
					return false
				}
			}
			return true
		}
		// the script: the first history of every kind is the fixed one (open, close, reopen, stale close, close), the others are seeded
		type op struct {
			open bool
			ch   int
			idx  int // handle index for close
		}
		var script []string
		bad := false
		steps := 5 + g.Intn(8)
		for s := 0; s < steps && !bad; s++ {
			r.Eval(1)
			var o op
			if h < len(kinds) {
				fixed := []op{{open: true, ch: 1}, {idx: 0}, {open: true, ch: 1}, {idx: 0}, {idx: 1}}
				if s >= len(fixed) {
					break
				}
				o = fixed[s]
			} else {
				ch := 1 + g.Intn(2)
				if allClosed(ch) && (len(handles) == 0 || g.Chance(1, 2)) {
					o = op{open: true, ch: ch}
				} else if len(handles) > 0 {
					o = op{idx: g.Intn(len(handles))}
				} else {
					o = op{open: true, ch: ch}
				}
			}
			if o.open {
				if !allClosed(o.ch) {
					continue
				}
				inc := 0
				for _, x := range handles {
					if x.ch == o.ch {
						inc++
					}
				}
				handles = append(handles, &c12muxHandle{ch: o.ch, inc: inc, sw: open(o.ch)})
				script = append(script, fmt.Sprintf("open(ch%d)->h%d", o.ch, len(handles)-1))
				continue
			}
			x := handles[o.idx]
			script = append(script, fmt.Sprintf("close(h%d)", o.idx))
			first := x.closes == 0
			type res struct {
				what string
				err  error
			}
			results := make(chan res, 8)
			var started sync.WaitGroup
			var pending atomic.Int64
			if first {
				for k := 0; k < 4; k++ {
					k := k
					started.Add(1)
					pending.Add(1)
					go func() {
						started.Done()
						var err error
						if k%2 == 0 {
							err = c12muxBlocked(func() error { return x.sw.Receive(context.Background(), func(p2p.Message[memAddr]) {}) })
							results <- res{"Receive", err}
						} else {
							err = c12muxBlocked(func() error {
								return x.sw.ServeAsk(context.Background(), func(context.Context, []byte, p2p.Message[memAddr]) int { return 0 })
							})
							results <- res{"ServeAsk", err}
						}
						pending.Add(-1)
					}()
				}
				started.Wait()
				time.Sleep(time.Duration(200+g.Intn(1500)) * time.Microsecond)
			}
			x.sw.Close()
			x.closes++
			// calls made after Close returned
			for k := 0; k < 2; k++ {
				k := k
				pending.Add(1)
				go func() {
					var err error
					if k%2 == 0 {
						err = c12muxBlocked(func() error { return x.sw.Receive(context.Background(), func(p2p.Message[memAddr]) {}) })
						results <- res{"Receive-after-close", err}
					} else {
						err = c12muxBlocked(func() error {
							return x.sw.ServeAsk(context.Background(), func(context.Context, []byte, p2p.Message[memAddr]) int { return 0 })
						})
						results <- res{"ServeAsk-after-close", err}
					}
					pending.Add(-1)
				}()
			}
			want := 2
			if first {
				want = 6
			}
			got := 0
			deadline := time.After(4 * time.Second)
		wait:
			for got < want {
				select {
				case rr := <-results:
					got++
					if rr.err == nil {
						r.Violate("C12/success-after-close/mux-lifecycle", caseID, fmt.Sprintf("%s on a closed channel swarm of a %s mux reported success", rr.what, kind),
							map[string]any{"stack": "mux-" + kind + "(mem)", "history": script, "handle": o.idx})
						bad = true
					}
				case <-deadline:
					break wait
				}
			}
			if got < want {
				s1 := gor.Find(gor.Snapshot(), "main.c12muxBlocked")
				time.Sleep(time.Second)
				s2 := map[int]gor.G{}
				for _, gg := range gor.Find(gor.Snapshot(), "main.c12muxBlocked") {
					s2[gg.ID] = gg
				}
				parked := 0
				text := ""
				for _, g1 := range s1 {
					if g2, ok := s2[g1.ID]; ok && gor.IsParked(g1.State) && gor.IsParked(g2.State) && len(g2.LibFrames()) > 0 {
						parked++
						if text == "" {
							text = g2.Text
						}
					}
				}
				if parked > 0 {
					r.Violate("C12/blocked-after-close/mux-lifecycle", caseID, fmt.Sprintf("%d Receive/ServeAsk calls on a channel swarm of a %s mux are still parked in the library after Close of that swarm returned (history: %v)", parked, kind, script),
						map[string]any{"stack": "mux-" + kind + "(mem)", "history": script, "handle": o.idx, "first_close_of_handle": first, "stack_of_one": text})
				} else {
					r.Inconclusive("c12 mux lifecycle: calls did not return within the watchdog but are not parked")
				}
				bad = true
			}
		}
		if !bad {
			conclusive++
			if len(script) >= 5 {
				r.NonTrivial(fmt.Sprintf("mux-lifecycle/%s/len=%d", kind, len(script)))
			}
		}
		inner.Close()
		if bad {
			// goroutines of the failed history may still sit in the hubs: release what can be released and stop
			for _, x := range handles {
				x.sw.Close()
			}
			return
		}
	}
	r.Count("c12_mux_lifecycle_histories", int64(conclusive))
}
