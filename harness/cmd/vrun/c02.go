package main

import (
	"bytes"
	"encoding/binary"
	"fmt"
	"go.brendoncarroll.net/p2p/f/x509"
	"os"
	"sort"
	"strings"
	"time"

	"go.brendoncarroll.net/p2p/p/p2pke"
	"go.brendoncarroll.net/p2p/verifhook"

	"verifharness/internal/ev"
	"verifharness/internal/rng"
)

func init() { register("C02", runC02) }

// participants of a C02 world
const (
	pA  = iota // honest initiator (key A) <-> pB
	pB         // honest responder (key B)
	pC         // unrelated honest initiator (key C) <-> pD
	pD         // unrelated honest responder
	pA2        // honest responder (key A) <-> raw attacker pM1
	pM1        // raw attacker, initiator, own key
	pB2        // honest initiator (key B) <-> raw attacker pM2
	pM2        // raw attacker, responder, own key
	pN
)

var c02Names = [pN]string{"A", "B", "C", "D", "A2", "M1", "B2", "M2"}
var c02Peer = [pN]int{pB, pA, pD, pC, pM1, pA2, pM2, pB2}

// c02Keys: the long-term key each participant holds (same order as c02Names).
var c02Keys = [pN]testKey{keyN(kA), keyN(kB), keyN(kC), keyN(15), keyN(kA), keyN(kM), keyN(kB), keyN(kM)}

type c02Msg struct {
	From  int // participant or -1 (adversary-made)
	Bytes []byte
	Note  string
}

type c02World struct {
	r       *ev.Run
	caseID  string
	g       *rng.R
	sess    [pN]*p2pke.Session // honest ones
	raw     [pN]*rawPeer
	pool    []c02Msg
	sent    [pN]map[string]bool // plaintexts each participant passed to Send
	gotCtr  [pN]map[uint32]bool // counters for which an honest session returned app data
	gotPT   [pN]map[string]int
	emitted map[uint64]map[uint64]bool // session id -> counters under which a ciphertext was produced
	sidOf   map[uint64]int
	recent  [][]byte // recent plaintexts >= 16 bytes
	now     time.Time
	log     []string
	dead    bool
	kinds   map[string]int
	hits    int // adversarial actions that hit a ready session
	ptN     int
}

func (w *c02World) logf(f string, a ...any) {
	if len(w.log) < 400 {
		w.log = append(w.log, fmt.Sprintf(f, a...))
	}
}

func (w *c02World) fail(sig, desc string, extra map[string]any) {
	if w.dead {
		return
	}
	w.dead = true
	lg := w.log
	if len(lg) > 80 && os.Getenv("VERIF_FULLLOG") == "" {
		lg = append([]string{fmt.Sprintf("... %d earlier actions ...", len(lg)-80)}, lg[len(lg)-80:]...)
	}
	d := map[string]any{"actions": lg}
	for k, v := range extra {
		d[k] = v
	}
	w.r.Violate(sig, w.caseID, desc, d)
}

func newC02World(r *ev.Run, g *rng.R, caseID string) *c02World {
	w := &c02World{r: r, caseID: caseID, g: g, now: pkeT0.Add(time.Second), emitted: map[uint64]map[uint64]bool{}, sidOf: map[uint64]int{}, kinds: map[string]int{}}
	w.sess[pA] = newSession(keyN(kA), true, pkeT0)
	w.sess[pB] = newSession(keyN(kB), false, pkeT0)
	w.sess[pC] = newSession(keyN(kC), true, pkeT0)
	w.sess[pD] = newSession(keyN(15), false, pkeT0)
	w.sess[pA2] = newSession(keyN(kA), false, pkeT0)
	w.sess[pB2] = newSession(keyN(kB), true, pkeT0)
	w.raw[pM1] = newRawPeer(keyN(kM), true)
	w.raw[pM2] = newRawPeer(keyN(kM), false)
	for i := 0; i < pN; i++ {
		w.sent[i] = map[string]bool{}
		w.gotCtr[i] = map[uint32]bool{}
		w.gotPT[i] = map[string]int{}
		if w.sess[i] != nil {
			w.sidOf[w.sess[i].VerifID()] = i
		}
	}
	verifhook.Drain()
	return w
}

// emit adds a produced message to the pool and runs the emission-side oracles (b) and (c).
func (w *c02World) emit(from int, b []byte, note string) int {
	if len(b) == 0 {
		return -1
	}
	w.pool = append(w.pool, c02Msg{From: from, Bytes: append([]byte{}, b...), Note: note})
	for _, pt := range w.recent {
		if bytes.Contains(b, pt) {
			w.fail("C02/plaintext-on-wire", "an application plaintext appears inside an emitted message", map[string]any{"from": c02Names[from], "note": note})
		}
	}
	w.drainHook()
	return len(w.pool) - 1
}

func (w *c02World) drainHook() {
	for _, e := range verifhook.Drain() {
		if e.Kind != verifhook.KindCiphertext {
			continue
		}
		m := w.emitted[e.A]
		if m == nil {
			m = map[uint64]bool{}
			w.emitted[e.A] = m
		}
		if m[e.C] {
			who := "?"
			if p, ok := w.sidOf[e.A]; ok {
				who = c02Names[p]
			}
			w.fail("C02/counter-reuse", fmt.Sprintf("session %s produced two ciphertexts under counter %d with the same key", who, e.C), nil)
		}
		m[e.C] = true
	}
}

func (w *c02World) newPT() []byte {
	w.ptN++
	if w.g.Chance(1, 12) {
		return []byte{} // the zero-length plaintext
	}
	n := w.g.Range(24, 64)
	pt := make([]byte, 0, n)
	pt = append(pt, []byte(fmt.Sprintf("PT%06d:", w.ptN))...)
	pt = append(pt, w.g.Bytes(n-len(pt))...)
	return pt
}

// send makes participant p encrypt a fresh plaintext (honest session or raw attacker).
func (w *c02World) send(p int) {
	pt := w.newPT()
	var ct []byte
	if s := w.sess[p]; s != nil {
		var err error
		if pan := sessCall(func() { ct, err = s.Send(nil, pt, w.now) }); pan != nil {
			w.fail("C02/panic/send", fmt.Sprintf("Send panicked: %v", pan), nil)
			return
		}
		if err != nil {
			return
		}
	} else {
		rp := w.raw[p]
		if rp.out == nil {
			return
		}
		ct = rp.NextData(pt)
	}
	w.sent[p][string(pt)] = true
	if len(pt) >= 16 {
		w.recent = append(w.recent, pt)
		if len(w.recent) > 48 {
			w.recent = w.recent[1:]
		}
	}
	w.logf("send(%s) ctr=%s len=%d", c02Names[p], ctrStr(ct), len(pt))
	w.emit(p, ct, "data")
	if s := w.sess[p]; s != nil {
		// cross-check the counter on the wire with the hook's record
		c, _ := msgCounter(ct)
		if m := w.emitted[s.VerifID()]; m == nil || !m[uint64(c)] {
			w.fail("C02/hook-mismatch", "the counter on the wire was not the one recorded at encryption", map[string]any{"ctr": c})
		}
	}
}

// deliver feeds bytes to honest session x and applies oracle (a).
func (w *c02World) deliver(x int, b []byte, what string) (reply []byte) {
	s := w.sess[x]
	if s == nil || w.dead {
		return nil
	}
	w.now = w.now.Add(time.Millisecond)
	var isApp bool
	var out []byte
	var err error
	wasReady := s.IsReady()
	if pan := sessCall(func() { isApp, out, err = s.Deliver(nil, append([]byte{}, b...), w.now) }); pan != nil {
		w.fail("C02/panic/deliver", fmt.Sprintf("Deliver panicked: %v", pan), map[string]any{"to": c02Names[x], "what": what, "msg": hexShort(b)})
		return nil
	}
	w.logf("deliver(%s -> %s) ctr=%s app=%v err=%v", what, c02Names[x], ctrStr(b), isApp, err != nil)
	w.drainHook()
	if wasReady {
		w.hits++
	}
	if err != nil {
		return nil
	}
	if !isApp {
		if len(out) > 0 {
			w.emit(x, out, "handshake-reply")
		}
		return out
	}
	c, _ := msgCounter(b)
	// The authenticated peer is whoever proved the key the session reports. Replays may pair a session with another
	// participant than the scripted one (A's InitHello replayed to A2, which holds the same key as A, makes A and A2 peers of
	// each other): every participant holding the reported key counts as "the authenticated peer".
	rk := s.RemoteKey()
	var holders []string
	fromPeer := false
	for p := 0; p < pN; p++ {
		if x509.EqualPublicKeys(&rk, &c02Keys[p].Pub) {
			holders = append(holders, c02Names[p])
			if p != x && w.sent[p][string(out)] {
				fromPeer = true
			}
		}
	}
	if !fromPeer {
		// whose plaintext is it, if anyone's?
		owner := "nobody (modified or invented)"
		for p := 0; p < pN; p++ {
			if w.sent[p][string(out)] {
				owner = c02Names[p]
			}
		}
		w.fail("C02/foreign-plaintext", fmt.Sprintf("session %s handed the application a plaintext that no holder of its authenticated peer key (%v) ever sent (sent by: %s)", c02Names[x], holders, owner), map[string]any{"what": what, "ctr": c, "plaintext": hexShort(out)})
		return nil
	}
	if w.gotCtr[x][c] {
		w.fail("C02/delivered-twice", fmt.Sprintf("session %s returned application data twice for counter %d", c02Names[x], c), map[string]any{"what": what})
		return nil
	}
	w.gotCtr[x][c] = true
	w.gotPT[x][string(out)]++
	if len(out) > 0 && w.gotPT[x][string(out)] > 1 {
		w.fail("C02/delivered-twice", fmt.Sprintf("session %s delivered the same unique plaintext twice", c02Names[x]), map[string]any{"what": what})
	}
	w.r.Count("app_deliveries", 1)
	return nil
}

// handshakeStep advances one pair's handshake by one honest hop (in order).
func (w *c02World) honestHandshakes(perturb bool) {
	// pair A<->B and C<->D
	for _, pr := range [][2]int{{pA, pB}, {pC, pD}} {
		i, rsp := pr[0], pr[1]
		m0 := w.sess[i].Handshake(nil)
		w.emit(i, m0, "InitHello")
		if perturb {
			w.adversaryStep()
		}
		m1 := w.deliver(rsp, m0, "InitHello")
		if perturb {
			w.adversaryStep()
		}
		m2 := w.deliver(i, m1, "RespHello")
		if perturb {
			w.adversaryStep()
		}
		m3 := w.deliver(rsp, m2, "InitDone")
		if perturb {
			w.adversaryStep()
		}
		if w.g.Chance(3, 4) {
			w.deliver(i, m3, "RespDone")
		} // else: RespDone lost; the initiator completes on data
	}
	// raw M1 (init) <-> A2
	m1 := w.raw[pM1]
	h0 := m1.InitHelloOwn(pkeT0)
	w.emit(pM1, h0, "InitHello(M)")
	if r1 := w.deliver(pA2, h0, "InitHello(M)"); r1 != nil {
		if _, err := m1.ReadRespHello(r1); err == nil {
			d := m1.InitDone(advSign(keyN(kM), advPurposeCB, m1.cbAfter))
			w.emit(pM1, d, "InitDone(M)")
			w.deliver(pA2, d, "InitDone(M)")
		}
	}
	// B2 (init) <-> raw M2
	m2 := w.raw[pM2]
	h := w.sess[pB2].Handshake(nil)
	w.emit(pB2, h, "InitHello")
	if m2.ReadInitHello(h) == nil {
		rh := m2.RespHello(advKeyBytes(keyN(kM)), advSign(keyN(kM), advPurposeCB, m2.cbBefore))
		w.emit(pM2, rh, "RespHello(M)")
		if id := w.deliver(pB2, rh, "RespHello(M)"); id != nil {
			if _, err := m2.ReadInitDone(id); err == nil {
				rd := m2.RespDone()
				w.emit(pM2, rd, "RespDone(M)")
				w.deliver(pB2, rd, "RespDone(M)")
			}
		}
	}
}

func (w *c02World) honestTargets() []int { return []int{pA, pB, pC, pD, pA2, pB2} }

// adversaryStep performs one adversarial action over the pool.
func (w *c02World) adversaryStep() {
	if w.dead || len(w.pool) == 0 {
		return
	}
	g := w.g
	m := w.pool[g.Intn(len(w.pool))]
	if g.Chance(1, 2) {
		// favour data messages and recent messages
		m = w.pool[len(w.pool)-1-g.Intn(min(len(w.pool), 8))]
	}
	tg := rng.Pick(g, w.honestTargets())
	kind := ""
	b := append([]byte{}, m.Bytes...)
	switch g.Intn(12) {
	case 0, 1: // deliver / replay / cross-feed as is
		kind = "replay"
	case 2: // to the intended receiver (progress)
		kind = "forward"
		if m.From >= 0 && w.sess[c02Peer[m.From]] != nil {
			tg = c02Peer[m.From]
		}
	case 3: // bit flip
		kind = "bitflip"
		if len(b) > 0 {
			b[g.Intn(len(b))] ^= 1 << uint(g.Intn(8))
		}
	case 4: // truncate
		kind = "truncate"
		b = b[:g.Intn(len(b)+1)]
	case 5: // extend
		kind = "extend"
		b = append(b, g.Bytes(1+g.Intn(20))...)
	case 6: // splice header of x onto body of y
		kind = "splice"
		y := w.pool[g.Intn(len(w.pool))].Bytes
		if len(b) >= 4 && len(y) >= 4 {
			b = append(append([]byte{}, b[:4]...), y[4:]...)
		}
	case 7: // rewrite the counter
		kind = "rewrite-counter"
		if len(b) >= 4 {
			c := rng.Pick(g, []uint32{0, 1, 2, 3, 4, 15, 16, 17, 1<<32 - 2, 1<<32 - 1, uint32(g.Intn(64))})
			binary.BigEndian.PutUint32(b[:4], c)
		}
	case 8: // duplicate delivery to the same target twice
		kind = "duplicate"
		if m.From >= 0 && w.sess[c02Peer[m.From]] != nil {
			tg = c02Peer[m.From]
		}
		w.deliver(tg, b, kind+":"+m.Note)
	case 9: // make someone send
		kind = "send"
		w.send(g.Intn(pN))
		w.kinds[kind]++
		return
	case 10: // reflect to the sender
		kind = "reflect"
		if m.From >= 0 && w.sess[m.From] != nil {
			tg = m.From
		}
	default: // deliver an old message (replay after k further messages)
		kind = "old-replay"
		m = w.pool[g.Intn(len(w.pool)/2+1)]
		b = append([]byte{}, m.Bytes...)
		if m.From >= 0 && w.sess[c02Peer[m.From]] != nil && g.Bool() {
			tg = c02Peer[m.From]
		}
	}
	w.kinds[kind]++
	w.deliver(tg, b, kind+":"+m.Note)
}

func runC02(r *ev.Run) {
	r.Rule = "session level: an honest pair, an unrelated honest pair and two sessions paired with a raw attacker feed one pool; a seeded adversary replays, forwards, reflects, duplicates, bit-flips, truncates, extends, splices, rewrites counters, cross-feeds and triggers Sends; oracles: (a) every app plaintext was sent by the session's authenticated peer and at most once per (session,counter), (b) no ciphertext counter repeats per session (hook at encryption, cross-checked with the wire), (c) no plaintext >=16 bytes on the wire, (d) counter limit; channel level: the same over real Channels with millisecond rekey; swarm level: p2pkeswarm nodes over a transport that replays ~40% of the datagrams, several (partly slow) receive workers per node, unique self-describing payloads: every delivery authentic, unaltered, stable during its callback, and at most once. non-trivial = handshakes completed and >=1 adversarial action hit a ready session; distinct = (action-kind multiset class, completion shape)"
	verifhook.EnableSink(true)
	defer verifhook.EnableSink(false)
	n := pick(r, 500, 20000)
	g := rng.New(r.Seed, "C02", fmt.Sprint(r.Batch))
	for i := 0; i < n; i++ {
		caseID := fmt.Sprintf("sess-%d-%d", r.Batch, i)
		cg := g.Fork()
		if !r.Want(caseID) {
			continue
		}
		w := newC02World(r, cg, caseID)
		perturb := cg.Chance(1, 3)
		w.honestHandshakes(perturb)
		steps := cg.Range(20, 120)
		for j := 0; j < steps && !w.dead; j++ {
			if cg.Chance(1, 4) {
				w.send(cg.Intn(pN))
			} else {
				w.adversaryStep()
			}
		}
		r.Eval(1)
		ready := 0
		for _, p := range w.honestTargets() {
			if w.sess[p].IsReady() {
				ready++
			}
		}
		if ready >= 2 && w.hits > 0 {
			ks := make([]string, 0, len(w.kinds))
			for k, c := range w.kinds {
				cl := "1"
				if c > 4 {
					cl = "many"
				}
				ks = append(ks, k+cl)
			}
			sort.Strings(ks)
			r.NonTrivial(fmt.Sprintf("ready=%d/perturb=%v/%s", ready, perturb, hashStr(strings.Join(ks, ","))[:6]))
		}
		if i < 2 {
			lg := w.log
			if len(lg) > 14 {
				lg = lg[:14]
			}
			r.Sample(map[string]any{"first_actions": lg, "pool": len(w.pool), "ready_sessions": ready, "action_kinds": w.kinds})
		}
	}
	c02CounterLimit(r)
	runC02Channel(r)
	runC02Swarm(r)
	// "authentic peer" across rotation: a channel bound to one key must not hand out plaintexts of another party that runs a
	// complete handshake of its own on it (as initiator, or as the one answering the channel's rekey), whatever the predicate
	// thinks of that party's key.
	if r.Batch == 0 {
		verifhook.EnableSink(true)
		okKey, otherOK := keyN(31), keyN(34)
		for _, pd := range predicates(okKey, keyN(32)) {
			if !pd.fn(&otherOK.Pub) || pd.name == "reject-all" {
				continue
			}
			for _, attack := range []string{"foreign-initiates", "foreign-answers-rekey", "foreign-answers-rekey-with-data"} {
				caseID := fmt.Sprintf("bound-%s-%s", pd.name, attack)
				if r.Want(caseID) {
					c05BoundAs(r, g.Fork(), caseID, pd, attack, "other-accepted-key", okKey, otherOK, "C02")
				}
			}
		}
	}
}

// runC02Swarm: the same property at the layer applications use. p2pkeswarm nodes over a transport that replays datagrams;
// several receive workers per node, some of them slow. Every delivered payload must be one its source told to this node
// (authentic, unaltered, stable for the duration of the callback) and a payload told once is delivered at most once.
func runC02Swarm(r *ev.Run) {
	n := pick(r, 1, 2)
	for i := 0; i < n; i++ {
		caseID := fmt.Sprintf("swarm-%d-%d", r.Batch, i)
		if !r.Want(caseID) {
			continue
		}
		g := rng.New(r.Seed, "C02swarm", fmt.Sprint(r.Batch), fmt.Sprint(i))
		st := buildP2PKEWire(stackOpts{n: 3}, g.Fork())
		cfg := c01Cfg{senders: g.Range(2, 4), receivers: g.Range(2, 4), repeats: pick(r, 2, 3), replies: true, atMostOnce: true}
		d := runLedgerWorkload(r, st, g, caseID, cfg, "C02")
		if d == 0 {
			r.Inconclusive("c02 swarm: nothing delivered")
		} else {
			r.NonTrivial(fmt.Sprintf("swarm/replaying-wire/senders=%d/receivers=%d", cfg.senders, cfg.receivers))
		}
		if i == 0 {
			// "authentic peer": after a handshake that was refused for answering with the wrong identity, nothing the refused
			// peer sends may surface under another identity
			for _, sf := range secureStacks(false) {
				if sf.Name == "p2pke(mem)" && r.Want(caseID+"-wrong-identity") {
					c04HonestAs(r, sf, g.Fork(), caseID+"-wrong-identity", "C02")
				}
			}
			r.Sample(map[string]any{"family": "p2pkeswarm over a replaying transport", "delivered": d, "senders_per_node": cfg.senders, "receivers_per_node": cfg.receivers})
		}
	}
}

// c02CounterLimit: oracle (d).
func c02CounterLimit(r *ev.Run) {
	caseID := "counter-limit"
	if !r.Want(caseID) {
		return
	}
	mk := func() (*p2pke.Session, *p2pke.Session) {
		a, b := newSession(keyN(kA), true, pkeT0), newSession(keyN(kB), false, pkeT0)
		now := pkeT0.Add(time.Second)
		_, m1, _ := b.Deliver(nil, a.Handshake(nil), now)
		_, m2, _ := a.Deliver(nil, m1, now)
		_, m3, _ := b.Deliver(nil, m2, now)
		a.Deliver(nil, m3, now)
		return a, b
	}
	now := pkeT0.Add(2 * time.Second)
	// sequential: the last usable counter is MaxNonce-1; from MaxNonce on Send must refuse
	for _, back := range []uint64{0, 1, 2, 5} {
		a, b := mk()
		if !a.IsReady() || !b.IsReady() {
			r.Violate("C02/limit-setup", caseID, "handshake for the counter-limit test did not complete", nil)
			return
		}
		a.VerifSetSendCounter(p2pke.MaxNonce - back)
		seen := map[uint32]bool{}
		okCount := 0
		for i := 0; i < 12; i++ {
			var ct []byte
			var err error
			if pan := sessCall(func() { ct, err = a.Send(nil, []byte("limit-test-plaintext"), now) }); pan != nil {
				r.Violate("C02/panic/send-at-limit", caseID, fmt.Sprintf("Send panicked near the counter limit: %v", pan), nil)
				return
			}
			if err != nil {
				continue
			}
			okCount++
			c, _ := msgCounter(ct)
			if seen[c] {
				r.Violate("C02/counter-reuse-at-limit", caseID, fmt.Sprintf("two ciphertexts with counter %d near the limit", c), nil)
				return
			}
			seen[c] = true
			if uint64(c) >= p2pke.MaxNonce || c < 16 {
				r.Violate("C02/send-beyond-limit", caseID, fmt.Sprintf("Send produced a ciphertext with counter %d outside [16, 2^32-2)", c), map[string]any{"start_back": back})
				return
			}
		}
		if uint64(okCount) != back {
			r.Violate("C02/send-beyond-limit", caseID, fmt.Sprintf("%d Sends succeeded with %d counters left", okCount, back), nil)
			return
		}
		r.Eval(1)
	}
	r.NonTrivial("counter-limit/sequential")
}
