package main

import (
	"context"
	"fmt"
	"sync"
	"sync/atomic"
	"time"

	"verifharness/internal/ev"
	"verifharness/internal/rng"
)

// c11CloseUnserved: many short trials of one situation — asks waiting at a destination where nobody is in ServeAsk, then the
// destination is closed. No handler ever exists in a trial, so every Ask must return an error; (n, nil) is a success that no
// handler produced. Fresh nodes per trial: on connection-oriented transports the window between the destination's hub being
// closed and its connections going away is hit only by some closes, so what matters is the number of closes, not of asks.
func c11CloseUnserved(r *ev.Run, sf stackFactory, g *rng.R, caseID, prop string, trials, workers int) {
	// trials run on several goroutines at once: the scheduling noise is part of the workload
	gs := make([]*rng.R, trials)
	for t := range gs {
		gs[t] = g.Fork()
	}
	var next atomic.Int64
	var stop atomic.Bool
	var wwg sync.WaitGroup
	for w := 0; w < workers; w++ {
		wwg.Add(1)
		go func() {
			defer wwg.Done()
			for !stop.Load() {
				t := int(next.Add(1)) - 1
				if t >= trials {
					return
				}
				if !c11CloseUnservedTrial(r, sf, gs[t], caseID, prop, t) {
					stop.Store(true)
				}
			}
		}()
	}
	wwg.Wait()
}

func c11CloseUnservedTrial(r *ev.Run, sf stackFactory, tg *rng.R, caseID, prop string, t int) bool {
	{
		st, err := sf.Build(stackOptsFor(sf.Name, tg))
		if err != nil || !st.HasAsk || len(st.Nodes) < 2 {
			r.Inconclusive("cannot build ask stack " + sf.Name)
			return false
		}
		a, b := st.Nodes[0], st.Nodes[1]
		// first contact: a tell that b really receives, so that the asks below travel over an established path
		led := newLedger()
		rctx, rcf := context.WithTimeout(context.Background(), 5*time.Second)
		got := make(chan struct{}, 1)
		go func() {
			if b.Receive(rctx, func(Msg) {}) == nil {
				got <- struct{}{}
			}
		}()
		for i := 0; i < 20; i++ {
			tctx, tcf := context.WithTimeout(context.Background(), time.Second)
			a.Tell(tctx, b.Idx, segmentOne(led.mk(tg, 0, 1, ledgerHdr+8, 0)))
			tcf()
			select {
			case <-got:
				i = 20
			case <-time.After(50 * time.Millisecond):
			}
		}
		rcf()
		nAsk := 1 + tg.Intn(4)
		var wg sync.WaitGroup
		type res struct {
			n   int
			err error
		}
		out := make([]res, nAsk)
		for i := 0; i < nAsk; i++ {
			wg.Add(1)
			i, req := i, led.mk(tg, 0, 1, ledgerHdr+4+tg.Intn(60), 0)
			go func() {
				defer wg.Done()
				ctx, cf := context.WithTimeout(context.Background(), 1500*time.Millisecond)
				defer cf()
				out[i].n, out[i].err = a.Ask(ctx, make([]byte, 256), b.Idx, segmentOne(req))
			}()
		}
		r.Eval(int64(nAsk))
		time.Sleep(time.Duration(2+tg.Intn(40)) * time.Millisecond)
		cd := make(chan struct{})
		go func() { b.Close(); close(cd) }()
		done := make(chan struct{})
		go func() { wg.Wait(); close(done) }()
		select {
		case <-done:
			for i := range out {
				if out[i].err == nil {
					r.Violate(prop+"/success-from-unserved-destination/"+st.Name, caseID, fmt.Sprintf("Ask returned (%d, nil) although nobody ever served asks at the destination, which was closed while the ask was waiting there", out[i].n),
						map[string]any{"stack": st.Name, "trial": t, "asks_waiting": nAsk})
					st.CloseAll()
					return false
				}
			}
			r.NonTrivial(fmt.Sprintf("%s/close-unserved/asks=%d", st.Name, nAsk))
			r.Count("close_unserved_trials", 1)
		case <-time.After(8 * time.Second):
			// asks that outlive their context are the business of the promptness families; nothing is judged here
			r.Count("close_unserved_asks_still_pending", 1)
		}
		select {
		case <-cd:
		case <-time.After(5 * time.Second):
		}
		sd := make(chan struct{})
		go func() { st.CloseAll(); close(sd) }()
		select {
		case <-sd:
		case <-time.After(5 * time.Second):
		}
	}
	return true
}

func runCloseUnserved(r *ev.Run, prop string, g *rng.R) {
	idx := 9100
	for _, sf := range askStacks() {
		idx++
		cg := g.Fork()
		caseID := "close-unserved-" + sf.Name
		conn := sf.Name == "ssh" || sf.Name == "quic(mem)"
		if (sf.Heavy && !conn && !isThorough(r)) || !r.Mine(idx) || !r.Want(caseID) {
			continue
		}
		trials := pick(r, 6, 20)
		if conn {
			trials = pick(r, 600, 1200)
		}
		if raceEnabled {
			trials = (trials + 3) / 4 // the race pass repeats the workload for the detector, not for the count
		}
		// one trial at a time except on sshswarm (own TCP ports): quic-go keeps a process-wide registry of packet connections by
		// local address text, and two in-memory realms alive at once hand out the same texts
		workers := 1
		if sf.Name == "ssh" {
			workers = 8
		} else if conn {
			trials = pick(r, 40, 150)
		}
		c11CloseUnserved(r, sf, cg, caseID, prop, trials, workers)
	}
}
