package main

import "verifharness/internal/ev"

// runC02Channel is the channel-level part of C02 (filled in with the channel harness).
func runC02Channel(r *ev.Run) {}
