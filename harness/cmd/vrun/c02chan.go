package main

import (
	"context"
	"encoding/binary"
	"fmt"
	"sync"
	"sync/atomic"
	"time"

	"go.brendoncarroll.net/p2p/verifhook"

	"verifharness/internal/ev"
	"verifharness/internal/rng"
)

// runC02Channel is the channel-level part of C02: two real Channels rotating sessions every few hundred ms, many
// concurrent senders, and an adversary that re-injects / mutates everything either side ever emitted.
func runC02Channel(r *ev.Run) {
	n := pick(r, 2, 12)
	g := rng.New(r.Seed, "C02chan", fmt.Sprint(r.Batch))
	for i := 0; i < n; i++ {
		caseID := fmt.Sprintf("chan-%d-%d", r.Batch, i)
		cg := g.Fork()
		if !r.Want(caseID) {
			continue
		}
		c02ChannelCase(r, cg, caseID)
	}
}

func c02ChannelCase(r *ev.Run, g *rng.R, caseID string) {
	b := 5 * time.Millisecond
	dur := 2200 * time.Millisecond
	if raceEnabled {
		b = 20 * time.Millisecond
		dur = 5 * time.Second
	}
	tm := timingsFor(b, g.Bool())
	verifhook.Drain()
	nw := newCnet(cendCfg{key: keyN(41), timings: tm}, cendCfg{key: keyN(42), timings: tm}, nil)
	nw.goPrompt()
	var emu sync.Mutex
	emitted := map[uint64]map[uint64]int{}
	recent := [][]byte{}
	var onWire atomic.Value
	nw.onEmit = func(m *cmsg) {
		// (c) no plaintext on the wire
		emu.Lock()
		for _, pt := range recent {
			if len(pt) >= 16 && containsSub(m.Bytes, pt) {
				onWire.CompareAndSwap(nil, fmt.Sprintf("message #%d from %s contains a plaintext", m.Idx, "AB"[m.From:m.From+1]))
			}
		}
		emu.Unlock()
	}
	ctx, cancel := context.WithCancel(context.Background())
	var sentMu sync.Mutex
	sent := [2]map[string]bool{{}, {}}
	var nSent atomic.Int64
	var wg sync.WaitGroup
	start := time.Now()
	const senders = 8
	for side := 0; side < 2; side++ {
		for s := 0; s < senders; s++ {
			side, s := side, s
			lg := g.Fork()
			wg.Add(1)
			go func() {
				defer wg.Done()
				for i := 0; time.Since(start) < dur; i++ {
					pt := make([]byte, 24+lg.Intn(40))
					lg.Fill(pt)
					copy(pt, fmt.Sprintf("C%d.%d.%d:", side, s, i))
					sentMu.Lock()
					sent[side][string(pt)] = true
					sentMu.Unlock()
					emu.Lock()
					recent = append(recent, pt)
					if len(recent) > 64 {
						recent = recent[1:]
					}
					emu.Unlock()
					sctx, cf := context.WithTimeout(ctx, 3*time.Second)
					err := nw.end(side).ch.Send(sctx, [][]byte{pt})
					cf()
					if err == nil {
						nSent.Add(1)
					}
					time.Sleep(time.Duration(lg.Intn(3000)) * time.Microsecond)
				}
			}()
		}
	}
	// the adversary
	var advActs atomic.Int64
	wg.Add(1)
	ag := g.Fork()
	go func() {
		defer wg.Done()
		for time.Since(start) < dur {
			time.Sleep(time.Duration(200+ag.Intn(1500)) * time.Microsecond)
			nw.mu.Lock()
			if len(nw.log) == 0 {
				nw.mu.Unlock()
				continue
			}
			var m *cmsg
			switch ag.Intn(3) {
			case 0: // an old message (possibly from several sessions ago)
				m = nw.log[ag.Intn(len(nw.log)/2+1)]
			case 1: // a recent one
				m = nw.log[len(nw.log)-1-ag.Intn(min(len(nw.log), 16))]
			default:
				m = nw.log[ag.Intn(len(nw.log))]
			}
			bts := append([]byte{}, m.Bytes...)
			from := m.From
			nw.mu.Unlock()
			to := 1 - from
			switch ag.Intn(8) {
			case 0, 1, 2: // replay to the intended receiver
			case 3: // reflect
				to = from
			case 4: // bit flip
				bts[ag.Intn(len(bts))] ^= 1 << uint(ag.Intn(8))
			case 5: // truncate / extend
				if ag.Bool() {
					bts = bts[:ag.Intn(len(bts)+1)]
				} else {
					bts = append(bts, ag.Bytes(1+ag.Intn(8))...)
				}
			case 6: // rewrite the counter
				if len(bts) >= 4 {
					binary.BigEndian.PutUint32(bts, rng.Pick(ag, []uint32{0, 1, 2, 3, 15, 16, 17, uint32(ag.Intn(200)), 1<<32 - 2, 1<<32 - 1}))
				}
			default: // cross-feed to the other side
				to = ag.Intn(2)
			}
			nw.push(to, bts)
			advActs.Add(1)
		}
	}()
	wg.Wait()
	time.Sleep(20 * b)
	cancel()
	nw.close()
	r.Eval(1)
	// (b) counter uniqueness per session, from the encryption-site hook
	for _, e := range verifhook.Drain() {
		if e.Kind != verifhook.KindCiphertext {
			continue
		}
		m := emitted[e.A]
		if m == nil {
			m = map[uint64]int{}
			emitted[e.A] = m
		}
		m[e.C]++
	}
	det := map[string]any{"sent": nSent.Load(), "adversary_actions": advActs.Load(), "sessions_seen": len(emitted), "backoff_ms": b.Milliseconds(), "rekey_ms": tm.RekeyAfterTime.Milliseconds()}
	for sid, m := range emitted {
		for c, k := range m {
			if k > 1 {
				det["session"], det["counter"] = sid, c
				r.Violate("C02/counter-reuse/channel", caseID, fmt.Sprintf("a session of a channel produced %d ciphertexts under counter %d", k, c), det)
				return
			}
		}
	}
	if w := onWire.Load(); w != nil {
		r.Violate("C02/plaintext-on-wire/channel", caseID, w.(string), det)
		return
	}
	// (a) authenticity and at-most-once across rotation
	nw.mu.Lock()
	defer nw.mu.Unlock()
	delivered := 0
	for side := 0; side < 2; side++ {
		for pt, k := range nw.appGot[side] {
			delivered++
			if !sent[1-side][pt] {
				owner := "nobody"
				if sent[side][pt] {
					owner = "the receiving side itself (reflection)"
				}
				det["plaintext"] = fmt.Sprintf("%q", pt)
				r.Violate("C02/foreign-plaintext/channel", caseID, "a channel delivered a plaintext its peer never sent (sent by: "+owner+")", det)
				return
			}
			if k > 1 {
				det["plaintext"] = fmt.Sprintf("%q", pt)
				r.Violate("C02/delivered-twice/channel", caseID, fmt.Sprintf("a plaintext was delivered %d times across session rotation", k), det)
				return
			}
		}
	}
	det["delivered"] = delivered
	if delivered > 0 && len(emitted) >= 4 && advActs.Load() > 0 {
		r.NonTrivial(fmt.Sprintf("channel/sessions=%d/ka=%dms", min(len(emitted), 12), tm.KeepAliveTimeout.Milliseconds()))
	}
	r.Count("channel_app_deliveries", int64(delivered))
	r.Count("channel_sessions", int64(len(emitted)))
	if caseID[len(caseID)-1] == '0' {
		r.Sample(det)
	}
}

func containsSub(hay, needle []byte) bool {
	if len(needle) == 0 || len(hay) < len(needle) {
		return false
	}
	for i := 0; i+len(needle) <= len(hay); i++ {
		if hay[i] == needle[0] && string(hay[i:i+len(needle)]) == string(needle) {
			return true
		}
	}
	return false
}
