package main

import (
	"bytes"
	"fmt"

	"go.brendoncarroll.net/p2p/p/kademlia"

	"verifharness/internal/ev"
	"verifharness/internal/rng"
)

func init() { register("C19", runC19) }

// queriesFor builds the query keys for a state: universe, locus, nil, prefixes of the locus,
// longer keys, keys agreeing with the locus on 0..8|locus| bits, random.
func queriesFor(g *rng.R, locus []byte, universe []string, nRandom int) [][]byte {
	var qs [][]byte
	qs = append(qs, nil, []byte{}, append([]byte{}, locus...))
	for _, k := range universe {
		qs = append(qs, []byte(k))
	}
	for i := 1; i < len(locus) && i < 6; i++ {
		qs = append(qs, append([]byte{}, locus[:i]...))
	}
	qs = append(qs, append(append([]byte{}, locus...), 0x00), append(append([]byte{}, locus...), 0xff, 0x01))
	nb := len(locus) * 8
	step := 1
	if nb > 64 {
		step = 7
	}
	for p := 0; p < nb; p += step {
		k := append([]byte{}, locus...)
		k[p/8] ^= 0x80 >> uint(p%8)
		for j := p/8 + 1; j < len(k); j++ {
			k[j] = byte(g.Intn(256))
		}
		qs = append(qs, k)
	}
	for i := 0; i < nRandom; i++ {
		qs = append(qs, g.Bytes(g.Range(0, len(locus)+2)))
	}
	return qs
}

func sharedBits(a, b []byte) int { return kademlia.DistanceLz(a, b) }

func runC19(r *ev.Run) {
	r.Rule = "cache states: every state of the C18 BFS (1-byte locus, keys at least as long as the locus) and random 2/4/32-byte-locus states; queries: universe, locus, nil, prefixes of the locus, longer keys, keys agreeing with the locus on every number of bits, random; oracle = brute force over Distance(): ForEach is a permutation in non-decreasing distance, Closest is a minimum, ForEachCloser = all and only nearer entries, ForEachMatching = exact prefix set, DHTNode.ListNodeInfos = n nearest, the Closer lists of DHTNode.HandleGet/HandlePut = all and only the peers nearer to the key than the node (keys shorter than, as long as and longer than an id); comparison laws exhaustively for strings of length <=1 (triples) and <=2 (pairs). non-trivial = >=2 entries in >=2 buckets other than the query's own; distinct = (bucket occupancy, query shared-prefix length)"
	r.Assumptions = []string{
		"ordering is asserted for caches whose entry keys are at least as long as the locus (shorter keys are filed by the locus bits they lack, which has no meaning for a truncated distance); queries may have any length",
	}
	locus := byte(0xA5)
	full := smallUniverse(locus)
	var uni []string
	for _, k := range full {
		if len(k) >= 1 {
			uni = append(uni, k)
		}
	}
	g := rng.New(r.Seed, "C19", fmt.Sprint(r.Batch))
	for i := 0; i < pick(r, 3, 20); i++ {
		cid := fmt.Sprintf("dhtnode-closer-%d-%d", r.Batch, i)
		if r.Want(cid) {
			c19DHTNodeCloser(r, g.Fork(), cid)
		}
	}
	qs1 := queriesFor(g, []byte{locus}, uni, 6)
	// all 256 one-byte queries too
	for b := 0; b < 256; b += 3 {
		qs1 = append(qs1, []byte{byte(b)})
	}
	cfgs := smallConfigs(locus)
	depth := pick(r, 3, 4)
	maxStates := pick(r, 1500, 20000)
	for ci, cfg := range cfgs {
		if !r.Mine(ci) || cfg.max == 0 {
			continue
		}
		caseID := fmt.Sprintf("bfs-max%d-min%d", cfg.max, cfg.minPer)
		if !r.Want(caseID) {
			continue
		}
		nov := func(*cacheSUT) violFn { return func(string, string, map[string]any) {} }
		u := []string{uni[0], uni[1], uni[2], uni[7], uni[8], uni[9], uni[10], uni[12], uni[13]}
		bfsCache(cfg, u, depth, maxStates, nov, false, func(s *cacheSUT, d int) {
			if s.dead {
				return
			}
			for _, q := range qs1 {
				r.Eval(1)
				if s.checkQuery(q, mkViol(r, caseID)) {
					r.NonTrivial(fmt.Sprintf("occ=%v/q=%d", occPattern(s), sharedBits([]byte{locus}, q)))
				}
			}
			if d%2 == 1 {
				for nbits := 0; nbits <= 16; nbits++ {
					for _, p := range [][]byte{{locus}, {locus ^ 0x80}, {locus, 0x00}, {locus ^ 1, 0x01}} {
						if nbits <= len(p)*8 {
							r.Eval(1)
							s.checkMatching(p, nbits, mkViol(r, caseID))
						}
					}
				}
			}
		})
	}
	// random larger states
	nStates := pick(r, 120, 1200)
	for i := 0; i < nStates; i++ {
		caseID := fmt.Sprintf("rand-%d-%d", r.Batch, i)
		cg := g.Fork()
		if !r.Want(caseID) {
			continue
		}
		ll := rng.Pick(cg, []int{2, 4, 32, 32})
		loc := cg.Bytes(ll)
		minPer := 0
		max := cg.Range(3, 80)
		if cg.Chance(1, 4) {
			minPer = 1
			max = ll*8 + cg.Intn(40)
		}
		cfg := cacheCfg{loc, max, minPer}
		pool := genKeyPool(cg, loc, max*2+10)
		var keys []string
		for _, k := range pool {
			if len(k) >= ll {
				keys = append(keys, k)
			}
		}
		s := newCacheSUT(cfg.locus, cfg.max, cfg.minPer)
		clock := 0
		nops := cg.Range(5, 4*max+10)
		silent := func(string, string, map[string]any) {}
		for j := 0; j < nops && !s.dead; j++ {
			o := genRandomOp(cg, keys, &clock)
			o.Zero = false
			s.apply(o, silent)
		}
		if s.dead {
			// C18's business; C19 needs a consistent state
			r.Count("states_skipped_model_diverged", 1)
			continue
		}
		qs := queriesFor(cg, loc, keys[:min(len(keys), 12)], 8)
		for _, q := range qs {
			r.Eval(1)
			if s.checkQuery(q, mkViol(r, caseID)) {
				r.NonTrivial(fmt.Sprintf("L%d/occ=%d/q=%d", ll, len(s.cm.bucketLens()), sharedBits(loc, q)))
			}
		}
		for t := 0; t < 12; t++ {
			p := []byte(rng.Pick(cg, keys))
			nbits := cg.Intn(len(p)*8 + 1)
			r.Eval(1)
			s.checkMatching(p, nbits, mkViol(r, caseID))
		}
		if i == 0 {
			r.Sample(map[string]any{"locus": fmt.Sprintf("%x", loc), "max": max, "entries": len(s.cm.m), "buckets_occupied": len(s.cm.bucketLens()), "queries": len(qs)})
		}
	}
	runC19DHTNode(r, g)
	runC19Laws(r, g)
}

func occPattern(s *cacheSUT) string {
	lens := s.cm.bucketLens()
	b := make([]byte, 9)
	for i := range b {
		b[i] = '0'
		if lens[i] > 9 {
			b[i] = '+'
		} else if lens[i] > 0 {
			b[i] = byte('0' + lens[i])
		}
	}
	return string(b)
}

func runC19Laws(r *ev.Run, g *rng.R) {
	caseID := "laws"
	if !r.Want(caseID) {
		return
	}
	// strings of length <= 1: index 0 = empty, 1..256 = single byte
	str1 := func(i int) []byte {
		if i == 0 {
			return []byte{}
		}
		return []byte{byte(i - 1)}
	}
	bad := 0
	report := func(sig, desc string, x, a, b []byte) {
		bad++
		if bad < 20 {
			r.Violate(sig, caseID, desc, map[string]any{"x": fmt.Sprintf("%x", x), "a": fmt.Sprintf("%x", a), "b": fmt.Sprintf("%x", b)})
		}
	}
	checkTriple := func(x, a, b []byte) {
		want := bytes.Compare(kademlia.Distance(x, a), kademlia.Distance(x, b))
		got := kademlia.DistanceCmp(x, a, b)
		if sign(got) != sign(want) {
			report("C19/law/cmp-vs-bytes", fmt.Sprintf("DistanceCmp=%d but bytes.Compare of distances=%d", got, want), x, a, b)
		}
		if sign(kademlia.DistanceCmp(x, b, a)) != -sign(got) {
			report("C19/law/antisymmetry", "DistanceCmp(x,a,b) != -DistanceCmp(x,b,a)", x, a, b)
		}
		if kademlia.DistanceLt(x, a, b) != (got < 0) || kademlia.DistanceGt(x, a, b) != (got > 0) {
			report("C19/law/lt-gt", "DistanceLt/Gt inconsistent with DistanceCmp", x, a, b)
		}
	}
	// exhaustive triples over length<=1; the outer index is dealt to batches
	n := 0
	for xi := 0; xi <= 256; xi++ {
		if !r.Mine(xi) {
			continue
		}
		x := str1(xi)
		for ai := 0; ai <= 256; ai++ {
			a := str1(ai)
			for bi := 0; bi <= 256; bi++ {
				checkTriple(x, a, str1(bi))
				n++
			}
		}
	}
	r.Eval(int64(n))
	r.Count("law_triples_exhaustive_len<=1", int64(n))
	// pairs over length <= 2 (exhaustive over a: 1+256+65536 strings would be 4e9 pairs; take all a, b of len<=1 and a 2-byte lattice)
	lattice := []byte{0x00, 0x01, 0x7f, 0x80, 0xa5, 0xfe, 0xff}
	var strs [][]byte
	for i := 0; i <= 256; i++ {
		strs = append(strs, str1(i))
	}
	for _, p := range lattice {
		for _, q := range lattice {
			strs = append(strs, []byte{p, q})
		}
	}
	np := 0
	for ai, a := range strs {
		if !r.Mine(ai) {
			continue
		}
		for _, b := range strs {
			d1, d2 := kademlia.Distance(a, b), kademlia.Distance(b, a)
			if !bytes.Equal(d1, d2) {
				report("C19/law/symmetry", "Distance(a,b) != Distance(b,a)", nil, a, b)
			}
			if len(d1) != min(len(a), len(b)) {
				report("C19/law/length", "len(Distance(a,b)) != min(len a, len b)", nil, a, b)
			}
			zero := true
			for _, c := range d1 {
				if c != 0 {
					zero = false
				}
			}
			if len(a) == len(b) && zero != bytes.Equal(a, b) {
				report("C19/law/identity", "for equal lengths, Distance is zero iff a == b violated", nil, a, b)
			}
			if kademlia.DistanceLz(a, b) != kademlia.LeadingZeros(d1) {
				report("C19/law/lz", "DistanceLz != LeadingZeros(Distance)", nil, a, b)
			}
			np++
		}
	}
	r.Eval(int64(np))
	r.Count("law_pairs", int64(np))
	// transitivity + agreement on random longer / unequal-length strings
	nt := pick(r, 600000, 10000000)
	lg := g.Fork()
	for i := 0; i < nt; i++ {
		x := lg.Bytes(lg.Intn(5))
		mk := func() []byte {
			b := lg.Bytes(lg.Intn(5))
			// bias toward sharing a prefix with x
			for j := 0; j < len(b) && j < len(x); j++ {
				if lg.Chance(2, 3) {
					b[j] = x[j] ^ byte(lg.Intn(2))
				}
			}
			return b
		}
		a, b, c := mk(), mk(), mk()
		checkTriple(x, a, b)
		ab, bc, ac := kademlia.DistanceCmp(x, a, b), kademlia.DistanceCmp(x, b, c), kademlia.DistanceCmp(x, a, c)
		if ab <= 0 && bc <= 0 && ac > 0 {
			report("C19/law/transitivity", fmt.Sprintf("a<=b, b<=c but a>c (c=%x)", c), x, a, b)
		}
	}
	r.Eval(int64(nt))
	r.NonTrivial("laws/triples")
	r.NonTrivial("laws/pairs")
	r.NonTrivial("laws/random")
}
