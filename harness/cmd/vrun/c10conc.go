package main

import (
	"context"
	"crypto/sha256"
	"encoding/binary"
	"fmt"
	"sync"
	"sync/atomic"
	"time"

	"go.brendoncarroll.net/p2p"

	"verifharness/internal/ev"
	"verifharness/internal/rng"
)

// c10ConcurrentTells: one real sender instance tells many multi-part messages to one destination from several goroutines at
// once (equal part counts, so that nothing but the sender's own bookkeeping keeps their parts apart). What it put on the wire
// is then fed, in the order it was emitted, to a fresh real destination instance: every delivered payload must be one of the
// payloads told.
func c10ConcurrentTells(r *ev.Run, g *rng.R, caseID string, layer c10Layer, innerMTU int) {
	if !r.Want(caseID) {
		return
	}
	net := newWireNet(innerMTU)
	const configured = 1 << 20
	sender := layer.mk(net.node(1), configured)
	defer sender.Close()
	partPayload := innerMTU - layer.part(0)
	if partPayload < 4 {
		return
	}
	parts := 2 + g.Intn(4)
	size := parts*partPayload - g.Intn(partPayload/2+1)
	if size < 24 {
		size = 24
	}
	if mtu := sender.MTU(); size > mtu {
		size = mtu
	}
	const P, M = 6, 8
	sent := map[[32]byte]string{}
	payloads := make([][][]byte, P)
	for p := 0; p < P; p++ {
		payloads[p] = make([][]byte, M)
		for m := 0; m < M; m++ {
			b := g.Bytes(size)
			copy(b, "C10c")
			b[4], b[5] = byte(p), byte(m)
			binary.BigEndian.PutUint32(b[6:], uint32(size))
			payloads[p][m] = b
			sent[sha256.Sum256(b)] = fmt.Sprintf("g%d/m%d", p, m)
		}
	}
	net.take()
	ctx := context.Background()
	start := make(chan struct{})
	var swg sync.WaitGroup
	var refused atomic.Int64
	for p := 0; p < P; p++ {
		p := p
		swg.Add(1)
		go func() {
			defer swg.Done()
			<-start
			for m := 0; m < M; m++ {
				tctx, cf := context.WithTimeout(ctx, 20*time.Second)
				if err := sender.Tell(tctx, wireAddr{0}, p2p.IOVec{append([]byte{}, payloads[p][m]...)}); err != nil {
					refused.Add(1)
				}
				cf()
			}
		}()
	}
	close(start)
	swg.Wait()
	r.Eval(P * M)
	frags := net.take()
	dnode := net.replace(0)
	d := layer.mk(dnode, configured)
	rctx, cancel := context.WithCancel(ctx)
	var mu sync.Mutex
	var dels [][]byte
	var got atomic.Int64
	var wg sync.WaitGroup
	for w := 0; w < 2; w++ {
		wg.Add(1)
		go func() {
			defer wg.Done()
			for d.Receive(rctx, func(m p2p.Message[wireAddr]) {
				mu.Lock()
				dels = append(dels, append([]byte{}, m.Payload...))
				mu.Unlock()
				got.Add(1)
			}) == nil {
			}
		}()
	}
	time.Sleep(20 * time.Millisecond) // see c10LargestMessage: mbapp's first housekeeping pass
	for _, f := range frags {
		for try := 0; !net.inject(f.Src, wireAddr{0}, f.Bytes) && try < 20000; try++ {
			time.Sleep(100 * time.Microsecond)
		}
	}
	stable, last := 0, int64(-1)
	for i := 0; i < 20000 && stable < 6; i++ {
		time.Sleep(500 * time.Microsecond)
		if len(dnode.inbox) != 0 {
			stable = 0
			continue
		}
		if cur := got.Load(); cur == last {
			stable++
		} else {
			last, stable = cur, 0
		}
	}
	cancel()
	d.Close()
	wg.Wait()
	whole := 0
	for _, dl := range dels {
		if _, ok := sent[sha256.Sum256(dl)]; ok {
			whole++
			continue
		}
		who := "?"
		if len(dl) >= 6 && string(dl[:4]) == "C10c" {
			who = fmt.Sprintf("starts as g%d/m%d", dl[4], dl[5])
		}
		r.Violate("C10/invented-or-mixed/"+layer.name+",concurrent-tells", caseID, fmt.Sprintf("%d goroutines told %d messages each of %d bytes (%d parts) to one destination at once; a %d-byte payload was delivered that is none of them (%s)", P, M, size, parts, len(dl), who),
			map[string]any{"layer": layer.name, "inner_mtu": innerMTU, "size": size, "parts": parts, "delivered_len": len(dl), "deliveries": len(dels), "fragments": len(frags), "head": hexShort(dl)})
		return
	}
	r.Count("c10_concurrent_tells_delivered_whole", int64(whole))
	if whole >= 2 {
		r.NonTrivial(fmt.Sprintf("%s/concurrent-tells/parts=%d/mtu=%d", layer.name, parts, innerMTU))
	} else {
		r.Count(fmt.Sprintf("c10_concurrent_tells_few_deliveries/%s", layer.name), 1)
	}
}
