package main

import (
	"bytes"
	"context"
	"fmt"
	"strings"
	"sync"
	"sync/atomic"
	"time"

	"go.brendoncarroll.net/p2p"
	"go.brendoncarroll.net/p2p/verifhook"

	"verifharness/internal/ev"
	"verifharness/internal/gor"
	"verifharness/internal/rng"
)

func init() { register("C01", runC01) }

// lengthsFor returns the payload lengths exercised on a stack.
func lengthsFor(g *rng.R, mtu, innerMTU int, nRandom int, bigCap int) []int {
	set := map[int]bool{}
	add := func(n int) {
		if n >= 0 && n <= mtu {
			set[n] = true
		}
	}
	for _, n := range []int{0, 1, 2, 3, 15, 16, 17, 18, 19, 31, 32, 33, 63, 64, 65} {
		add(n)
	}
	// around powers of two, and a header's length below them: fixed-size scratch buffers and length bytes live there
	for _, p := range []int{128, 256, 512, 1024, 4096} {
		for _, d := range []int{-9, -8, -2, -1, 0, 1} {
			add(p + d)
		}
	}
	if innerMTU > 0 {
		for _, hdr := range []int{0, 3, 15, 24} { // layer header sizes: fragswarm 3..15, mbapp 24
			part := innerMTU - hdr
			for k := 1; k <= 4; k++ {
				for d := -1; d <= 1; d++ {
					add(k*part + d)
				}
			}
		}
	}
	if mtu <= bigCap {
		add(mtu - 1)
		add(mtu)
	} else {
		// a few big ones only
		if g.Chance(1, 2) {
			add(mtu)
		} else {
			add(mtu - 1)
		}
		add(mtu/2 + g.Intn(mtu/4))
		add(mtu/4 + g.Intn(mtu/8))
	}
	for i := 0; i < nRandom; i++ {
		hi := mtu
		if hi > 4096 && !g.Chance(1, 8) {
			hi = 4096
		}
		add(g.Intn(hi + 1))
	}
	out := make([]int, 0, len(set))
	for n := range set {
		out = append(out, n)
	}
	// deterministic order
	for i := 1; i < len(out); i++ {
		for j := i; j > 0 && out[j] < out[j-1]; j-- {
			out[j], out[j-1] = out[j-1], out[j]
		}
	}
	return out
}

type c01Cfg struct {
	senders, receivers int
	repeats            int
	replies            bool
	doubleClose        bool // close every swarm from two goroutines at once (Close racing Close is concurrent use too)
	closeMid           bool // node 0 is closed while traffic flows and callbacks are running: what its callbacks hold must stay theirs until they return
	atMostOnce         bool // judge a second delivery of a unique (self-describing) payload: the stack under test must suppress replays
}

//go:noinline
func c01worker(fn func()) { fn() }

//go:noinline
func c01sender(fn func()) { fn() }

// runLedgerWorkload drives all-pairs traffic on a stack and applies the C01 oracle (also used by C14).
func runLedgerWorkload(r *ev.Run, st *Stack, g *rng.R, caseID string, cfg c01Cfg, prop string) (delivered int64) {
	led := newLedger()
	n := len(st.Nodes)
	mtu := st.Nodes[0].MTU()
	lengths := lengthsFor(g, mtu, st.InnerMTU, 12, 70000)
	ctx, cancel := context.WithCancel(context.Background())
	var told, got, dups, replies atomic.Int64
	var closedMid atomic.Bool
	multiHomed := strings.HasPrefix(st.Name, "multi{")
	var rwg, swg sync.WaitGroup
	viol := func(sig, desc string, d map[string]any) {
		d["stack"] = st.Name
		r.Violate(prop+"/"+sig+"/"+st.Name, caseID, desc, d)
	}
	replyCh := make(chan func(), 1024)
	// receivers
	for i := 0; i < n; i++ {
		node := st.Nodes[i]
		for w := 0; w < cfg.receivers; w++ {
			lg := g.Fork()
			rwg.Add(1)
			go func() {
				defer rwg.Done()
				c01worker(func() {
					for {
						err := node.Receive(ctx, func(m Msg) {
							// private copy first; the callback then owns (and scribbles) the buffer
							sum0 := crcOf(m.Payload)
							p := append([]byte{}, m.Payload...)
							if cfg.closeMid && node.Idx == 0 && got.Load() >= 8 {
								// the node is about to be closed: its callbacks stay until it has been (bounded), and a little longer
								for w := 0; w < 400 && !closedMid.Load(); w++ {
									time.Sleep(50 * time.Microsecond)
								}
								time.Sleep(time.Duration(300+lg.Intn(1200)) * time.Microsecond)
							} else if lg.Chance(1, 4) {
								time.Sleep(time.Duration(lg.Intn(50)) * time.Microsecond)
							}
							if crcOf(m.Payload) != sum0 {
								viol("buffer-changed-during-callback", "the message buffer was written by someone else while the receiver callback was running", map[string]any{"receiver": node.Idx, "len": len(p)})
							}
							for j := range m.Payload {
								m.Payload[j] = 0xDD
							}
							cands := led.lookup(p)
							if len(cands) == 0 {
								viol("unknown-payload", "a receiver was handed a payload that nobody told: "+describePayload(p), map[string]any{"receiver": node.Idx, "src": fmt.Sprint(m.Src), "dst": fmt.Sprint(m.Dst), "len": len(p), "head": hexShort(p)})
								return
							}
							var match *lent
							wrongDst, wrongSrc := false, false
							for _, e := range cands {
								if e.Dst != node.Idx {
									wrongDst = true
									continue
								}
								if !st.SrcNames(e.Sender, m.Src) {
									wrongSrc = true
									continue
								}
								match = e
								break
							}
							if match == nil {
								switch {
								case wrongSrc:
									viol("wrong-source", "a delivered message's source address does not name the node that told it", map[string]any{"receiver": node.Idx, "true_sender": cands[0].Sender, "src": fmt.Sprint(m.Src), "sender_addrs": fmt.Sprint(st.Nodes[cands[0].Sender].LocalAddrs())})
								case wrongDst:
									viol("misdelivered", "a payload told to one node was delivered to another", map[string]any{"receiver": node.Idx, "addressed_to": cands[0].Dst, "len": len(p)})
								}
								return
							}
							if !st.DstNames(node.Idx, m.Dst) {
								viol("wrong-destination", "a delivered message's destination address does not name the receiving node", map[string]any{"receiver": node.Idx, "dst": fmt.Sprint(m.Dst), "receiver_addrs": fmt.Sprint(node.LocalAddrs()), "sender": match.Sender})
								return
							}
							got.Add(1)
							if match.delivered.Add(1) > 1 {
								dups.Add(1)
								if cfg.atMostOnce && len(p) >= ledgerHdr+4 {
									viol("delivered-twice", "a payload that was told once was handed to the receiver a second time", map[string]any{"receiver": node.Idx, "sender": match.Sender, "len": len(p), "head": hexShort(p)})
								}
							}
							r.NonTrivial(fmt.Sprintf("%s/%s", st.Name, lenClassOf(len(p), mtu, st.InnerMTU)))
							// reply to the observed source address
							if cfg.replies && match.Tag == 0 && lg.Chance(1, 3) {
								rp := led.mk(lg, node.Idx, match.Sender, lg.Range(0, min(mtu, 200)), 1)
								src := m.Src
								sg := lg.Fork()
								send := func() {
									tctx, cf := context.WithTimeout(ctx, 5*time.Second)
									defer cf()
									v, _ := segment(sg, rp)
									if node.TellAddr(tctx, src, v) == nil {
										replies.Add(1)
									}
								}
								if lg.Bool() {
									send() // from inside the callback
								} else {
									select {
									case replyCh <- send:
									default:
									}
								}
							}
						})
						if err != nil {
							return
						}
					}
				})
			}()
		}
	}
	// deferred replies
	rwg.Add(1)
	go func() {
		defer rwg.Done()
		for {
			select {
			case <-ctx.Done():
				return
			case f := <-replyCh:
				f()
			}
		}
	}()
	// senders
	for i := 0; i < n; i++ {
		node := st.Nodes[i]
		for w := 0; w < cfg.senders; w++ {
			w := w
			lg := g.Fork()
			swg.Add(1)
			go func() {
				defer swg.Done()
				c01sender(func() {
					for rep := 0; rep < cfg.repeats; rep++ {
						// the shortest payloads once more at the end: by then every transport buffer has been used and recycled
						ls := append(append([]int{}, lengths...), 0, 1, 0, 2, 0)
						for li, L := range ls {
							if li < len(lengths) && (li+rep)%cfg.senders != w {
								continue
							}
							for dst := 0; dst < n; dst++ {
								if dst == node.Idx {
									continue
								}
								p := led.mk(lg, node.Idx, dst, L, 0)
								// the vector itself may be modified by Tell (net.Buffers semantics); the buffers may not: keep our own handles
								var v p2p.IOVec
								var segs, pristine [][]byte
								if lg.Chance(1, 3) {
									v, segs, pristine = segmentArena(lg, p) // segments sliced out of one buffer, with spare capacity behind each
								} else {
									v, pristine = segment(lg, p)
									segs = append([][]byte{}, v...)
								}
								timeout := 10 * time.Second
								if L > 4096 && lg.Chance(1, 3) {
									// a deadline that may expire while the message is being written out: whatever is delivered must still be whole
									timeout = time.Duration(50+lg.Intn(3000)) * time.Microsecond
									r.Count("tells_with_tight_deadline", 1)
								}
								if cfg.closeMid {
									time.Sleep(20 * time.Microsecond) // paced, so that the telling lasts well past the moment of Close
								}
								tctx, cf := context.WithTimeout(ctx, timeout)
								var err error
								if la := st.Nodes[dst].LocalAddrs(); multiHomed && len(la) > 1 && lg.Bool() {
									err = node.TellAddr(tctx, la[lg.Intn(len(la))], v) // any of a multi-homed node's addresses, not only its first
									r.Count("tells_to_another_local_address", 1)
								} else {
									err = node.Tell(tctx, dst, v)
								}
								cf()
								for k := range segs {
									if !bytes.Equal(segs[k], pristine[k]) {
										viol("sender-buffer-modified", "Tell modified one of the caller's buffers", map[string]any{"sender": node.Idx, "segment": k, "segments": len(v), "len": L})
									}
								}
								for k := range segs {
									for j := range segs[k] {
										segs[k][j] = 0xEE // may be overwritten as soon as Tell returns
									}
								}
								if err == nil {
									told.Add(1)
								} else if p2p.IsErrMTUExceeded(err) {
									r.Count("tell_mtu_errors", 1)
								} else {
									r.Count("tell_errors", 1)
								}
							}
						}
					}
				})
			}()
		}
	}
	if cfg.closeMid {
		go func() {
			for w := 0; w < 100000 && got.Load() < 12; w++ {
				time.Sleep(50 * time.Microsecond)
			}
			time.Sleep(time.Duration(g.Intn(600)) * time.Microsecond)
			st.Nodes[0].Close()
			closedMid.Store(true)
			r.Count("closed_mid_traffic", 1)
		}()
	}
	sdone := make(chan struct{})
	go func() { swg.Wait(); close(sdone) }()
	if v, stacks := gor.WaitParked(sdone, "main.c01sender", 120*time.Second, time.Second); v != gor.Returned {
		if v == gor.Parked {
			r.Count("senders_parked", 1)
			r.Extra["parked_senders_"+st.Name] = stacks
		}
		r.Inconclusive("senders did not finish on " + st.Name)
	}
	// drain: until everything told has been seen, or quiescence
	last, quiet := got.Load(), 0
	for quiet < 60 && got.Load()-dups.Load() < told.Load()+replies.Load() {
		time.Sleep(5 * time.Millisecond)
		if cur := got.Load(); cur == last {
			quiet++
		} else {
			last, quiet = cur, 0
		}
	}
	cancel()
	closed := make(chan struct{})
	go func() {
		c01worker(func() {
			if cfg.doubleClose {
				second := make(chan struct{})
				go func() { defer close(second); st.CloseAll() }()
				st.CloseAll()
				<-second
				return
			}
			st.CloseAll()
		})
		close(closed)
	}()
	if v, _ := gor.WaitParked(closed, "main.c01worker", 10*time.Second, time.Second); v != gor.Returned {
		r.Count("teardown_blocked", 1) // judged by C12, not here
	}
	rdone := make(chan struct{})
	go func() { rwg.Wait(); close(rdone) }()
	select {
	case <-rdone:
	case <-time.After(5 * time.Second):
		r.Count("receivers_left_behind", 1) // judged by C12
	}
	r.Eval(told.Load())
	r.Count("told", told.Load())
	r.Count("delivered", got.Load())
	r.Count("duplicates", dups.Load())
	r.Count("replies_told", replies.Load())
	return got.Load()
}

func crcOf(b []byte) uint32 {
	var x uint32 = 2166136261
	for _, c := range b {
		x = (x ^ uint32(c)) * 16777619
	}
	return x
}

func stackOptsFor(name string, g *rng.R) stackOpts {
	o := stackOpts{n: 3}
	switch {
	case name == "frag(mem)":
		o.innerMTU = rng.Pick(g, []int{40, 64, 100, 1000})
		o.outerMTU = o.innerMTU * rng.Pick(g, []int{2, 4, 10})
	case name == "mbapp(mem)":
		o.innerMTU = rng.Pick(g, []int{64, 100, 256, 1000})
		o.outerMTU = o.innerMTU * rng.Pick(g, []int{2, 4, 10})
	case name == "mem" || name == "secmem":
		if g.Bool() {
			o.innerMTU = rng.Pick(g, []int{64, 1000, 4096})
		}
	}
	return o
}

func armStackHooks(g *rng.R) {
	armHooks(g, []uint16{verifhook.TellHubReceiveEnter, verifhook.TellHubReceiveBlock, verifhook.TellHubDeliver, verifhook.QueueDeliverMid,
		verifhook.QueueReceiveAfterFn, verifhook.FragAfterAddPart, verifhook.MbappAfterAddPart, verifhook.P2pkeSwarmAfterDeliver, verifhook.ChannelBeforeSend})
}

// c01WrongIdentity: "to whom it was told" on stacks whose addresses carry an identity: after honest all-pairs traffic a Tell to
// identity X at node Y's transport address must not be handed to Y.
func c01WrongIdentity(r *ev.Run, g *rng.R) {
	idx := 5000
	for _, sf := range secureStacks(isThorough(r)) {
		if sf.Name != "p2pke(mem)" && sf.Name != "quic(mem)" && sf.Name != "p2pke(udp)" {
			continue
		}
		idx++
		caseID := "wrong-identity-" + sf.Name
		if r.Mine(idx) && r.Want(caseID) {
			c04HonestAs(r, sf, g.Fork(), caseID, "C01")
		}
	}
}

// shortQueueStack: non-reassembling layers over the in-memory transport that also get (fewer) short-queue runs.
func shortQueueStack(name string) bool {
	switch name {
	case "mux-string(mem)", "mux-varint(mem)", "multi{mem,mem}", "map(mem)", "wl(mem)", "p2pke(mem)":
		return true
	}
	return false
}

func runC01(r *ev.Run) {
	r.Rule = "per stack: 3 nodes, several concurrent senders and receivers per node, all pairs, payload lengths {0,1,2,3,15..19,31..33,63..65, fragment boundaries +-1, MTU-1, MTU} plus random, IOVecs of 1-5 segments, replies to the observed source address (half from inside the callback), seeded delays at hook points; every delivered payload is looked up (sha256) in a ledger of unique self-describing payloads: must have been told to this receiver, Src must name the teller, Dst the receiver; callback buffers are checksummed and scribbled (0xDD), sender buffers compared and overwritten (0xEE) after Tell (a third of the vectors are slices of one buffer with gaps and spare capacity behind every segment, and the whole buffer is compared). Extra runs: short receive queues, peers with different MTUs, a link that wipes and drops every fifth message, node 0 closed while its callbacks are running and its peers keep telling; the largest message of the reassembling layers (MTU()-1, MTU(), MTU()+1 bytes over parts of 1, 2 or 4 bytes). Losses and duplicates are counted, not judged. On stacks whose addresses carry an identity, a Tell to identity X at node Y's transport address must not reach Y. non-trivial = a delivery observed and matched; distinct = (stack, length class)"
	stacks := allStacks()
	g := rng.New(r.Seed, "C01", fmt.Sprint(r.Batch))
	idx := 0
	for _, sf := range stacks {
		onlySkew := false
		if sf.Heavy && !isThorough(r) {
			if sf.Name != "quic(mem)" && sf.Name != "ssh" {
				continue
			}
			onlySkew = sf.Name == "quic(mem)" // the quick pass runs quic only in its skewed-MTU configuration (and ssh once)
		}
		reps := pick(r, 1, 3)
		// reassembling layers get extra runs over a transport with a very short receive queue: its buffers are recycled
		// while parts of other messages are still being collected (and parts are lost, so aggregators see incomplete messages)
		shortq := 0
		if sf.Name == "frag(mem)" || sf.Name == "mbapp(mem)" {
			shortq = pick(r, 2, 4)
		} else if shortQueueStack(sf.Name) {
			shortq = pick(r, 1, 2) // any layer over a buffer-recycling transport may be tempted to keep a reference past the callback
		}
		skewed := 0
		if sf.Name == "frag(mem)" || sf.Name == "mbapp(mem)" || sf.Name == "quic(mem)" {
			skewed = 1
		}
		lossy := 0
		switch sf.Name {
		case "mem", "secmem", "mux-string(mem)", "frag(mem)":
			lossy = 1 // a link emulation that wipes what it drops: it must have been given its own copy
		}
		closeMid := 0
		switch sf.Name {
		case "mux-string(mem)", "mux-varint(mem)", "mux-uint32(mem)", "multi{mem,mem}", "frag(mem)", "mbapp(mem)", "mem":
			closeMid = 1 // a node closes while its callbacks are running and its peers keep telling
		}
		for rep := 0; rep < reps+shortq+skewed+lossy+closeMid; rep++ {
			idx++
			cg := g.Fork()
			if !r.Mine(idx) || (onlySkew && rep < reps+shortq) {
				continue
			}
			caseID := fmt.Sprintf("%s-%d", sf.Name, rep)
			if !r.Want(caseID) {
				continue
			}
			so := stackOptsFor(sf.Name, cg)
			if rep >= reps+shortq+skewed+lossy {
				so.queueLen = 8
			} else if rep >= reps+shortq+skewed {
				so.lossy = true
			} else if rep >= reps+shortq {
				// peers that disagree about the limit: node i is configured with MTU>>i
				so.skew = true
				if sf.Name == "quic(mem)" {
					so.outerMTU = 8192
				}
			} else if rep >= reps {
				so.queueLen = []int{4, 8, 2, 16}[(rep-reps)%4]
			}
			st, err := sf.Build(so)
			if err != nil {
				r.Inconclusive("cannot build " + sf.Name + ": " + err.Error())
				continue
			}
			armStackHooks(cg)
			cfg := c01Cfg{senders: cg.Range(2, 4), receivers: cg.Range(1, 3), repeats: pick(r, 1, 2), replies: true}
			if cfg.closeMid = rep >= reps+shortq+skewed+lossy; cfg.closeMid {
				cfg.repeats *= 3 // the peers keep telling well past the moment of Close
			}
			d := runLedgerWorkload(r, st, cg, caseID, cfg, "C01")
			verifhook.DisarmAll()
			if d == 0 {
				r.Inconclusive("no delivery observed on " + st.Name)
			}
			if rep == 0 || rep >= reps {
				r.Sample(map[string]any{"stack": st.Name, "mtu": st.Nodes[0].MTU(), "inner_mtu": st.InnerMTU, "queue_len": so.queueLen, "skewed_mtu": so.skew, "lossy_link": so.lossy, "closed_mid_traffic": cfg.closeMid, "senders_per_node": cfg.senders, "receivers_per_node": cfg.receivers, "delivered": d})
			}
		}
	}
	c01WrongIdentity(r, g)
	// the largest message of the reassembling layers, over parts a few bytes long
	for li, layer := range c10Layers() {
		lg := g.Fork()
		if r.Mine(6000 + li) {
			c10LargestMessage(r, lg, "C01", layer)
		}
	}
}
