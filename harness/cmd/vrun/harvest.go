package main

import (
	"context"
	"fmt"
	"reflect"
	"sync"
	"time"

	"go.brendoncarroll.net/p2p"
	"go.brendoncarroll.net/p2p/f/x509"
	"go.brendoncarroll.net/p2p/s/p2pkeswarm"
	"go.brendoncarroll.net/p2p/s/quicswarm"

	"verifharness/internal/ev"
	"verifharness/internal/rng"
)

type harvested struct {
	Node   int
	Kind   string // local | src | dst
	Addr   p2p.Addr
	Sender int // for src/dst: who sent the message
}

// harvestAddrs builds a stack, passes a few messages (incl. replies to the observed source) and returns every address
// the swarms handed out.
func harvestAddrs(st *Stack) []harvested {
	var mu sync.Mutex
	var out []harvested
	add := func(h harvested) { mu.Lock(); out = append(out, h); mu.Unlock() }
	for i, n := range st.Nodes {
		for _, a := range n.LocalAddrs() {
			add(harvested{Node: i, Kind: "local", Addr: a, Sender: i})
		}
	}
	ctx, cancel := context.WithCancel(context.Background())
	var wg sync.WaitGroup
	for i, n := range st.Nodes {
		i, n := i, n
		wg.Add(1)
		go func() {
			defer wg.Done()
			for {
				if err := n.Receive(ctx, func(m Msg) {
					s := -1
					if len(m.Payload) >= 2 && m.Payload[0] == 'H' {
						s = int(m.Payload[1])
					}
					add(harvested{Node: i, Kind: "src", Addr: m.Src, Sender: s})
					add(harvested{Node: i, Kind: "dst", Addr: m.Dst, Sender: s})
					if len(m.Payload) >= 3 && m.Payload[2] == 0 {
						// reply once to the observed source
						tctx, cf := context.WithTimeout(ctx, 2*time.Second)
						n.TellAddr(tctx, m.Src, p2p.IOVec{[]byte{'H', byte(i), 1}})
						cf()
					}
				}); err != nil {
					return
				}
			}
		}()
	}
	for i, n := range st.Nodes {
		for j := range st.Nodes {
			if i == j {
				continue
			}
			tctx, cf := context.WithTimeout(ctx, 5*time.Second)
			n.Tell(tctx, j, p2p.IOVec{[]byte{'H', byte(i), 0}})
			cf()
		}
	}
	nn := len(st.Nodes)
	for w := 0; w < 400; w++ {
		mu.Lock()
		c := len(out)
		mu.Unlock()
		if c >= nn+4*nn*(nn-1) {
			break
		}
		time.Sleep(5 * time.Millisecond)
	}
	cancel()
	done := make(chan struct{})
	go func() { st.CloseAll(); wg.Wait(); close(done) }()
	select {
	case <-done:
	case <-time.After(10 * time.Second):
	}
	mu.Lock()
	defer mu.Unlock()
	return append([]harvested{}, out...)
}

// runC16Harvest: every address a real swarm handed out must survive marshal+parse with that swarm's parser.
func runC16Harvest(r *ev.Run, g *rng.R) {
	type hs struct {
		name  string
		build func() (*Stack, error)
	}
	o := stackOpts{n: 2}
	list := []hs{
		{"mem", func() (*Stack, error) { return buildMem(o), nil }},
		{"udp4", func() (*Stack, error) { return buildUDP(o, "127.0.0.1:0", "udp4") }},
		{"udp6", func() (*Stack, error) { return buildUDP(o, "[::1]:0", "udp6") }},
		{"udp-unspecified", func() (*Stack, error) { return buildUDP(o, ":0", "udp-unspecified") }},
		{"p2pke(mem)", func() (*Stack, error) { return buildP2PKEMem(o), nil }},
		{"p2pke(udp)", func() (*Stack, error) { return buildP2PKEUDP(o) }},
		{"multi{mem,mem}", func() (*Stack, error) { return buildMultiMem(o, 0), nil }},
		{"map(mem)", func() (*Stack, error) { return buildMapMem(o), nil }},
		{"mux-string(mem)", func() (*Stack, error) { return buildMuxMem(o, "string"), nil }},
		{"quic(mem)", func() (*Stack, error) { return buildQUICMem(o) }},
		{"ssh", func() (*Stack, error) { return buildSSH(o) }},
	}
	if isThorough(r) {
		list = append(list, hs{"quic(udp)", func() (*Stack, error) { return buildQUICUDP(o) }})
	}
	for li, h := range list {
		if !r.Mine(li) {
			continue
		}
		caseID := "harvest-" + h.name
		if !r.Want(caseID) {
			continue
		}
		st, err := h.build()
		if err != nil {
			r.Count("harvest_stack_unavailable", 1)
			continue
		}
		parse := st.Nodes[0].ParseAddr
		hv := harvestAddrs(st)
		seen := map[string]bool{}
		for _, x := range hv {
			r.Eval(1)
			text, err := x.Addr.MarshalText()
			if err != nil {
				r.Violate("C16/harvested-marshal-error/"+h.name, caseID, "an address handed out by a swarm cannot be marshalled: "+err.Error(), map[string]any{"kind": x.Kind})
				continue
			}
			if seen[x.Kind+string(text)] {
				continue
			}
			seen[x.Kind+string(text)] = true
			back, perr, pan := safeParse(parse, text)
			if pan != nil || perr != nil || !reflect.DeepEqual(back, x.Addr) {
				r.Violate("C16/harvested-roundtrip/"+h.name+"/"+x.Kind, caseID, fmt.Sprintf("the %s address %q handed out by the swarm does not survive marshal+parse with the same swarm (err=%v panic=%v)", x.Kind, text, perr, pan), map[string]any{"text": string(text), "back": fmt.Sprintf("%#v", back)})
				continue
			}
			r.NonTrivial("harvest/" + h.name + "/" + x.Kind)
		}
		if li == 1 {
			var texts []string
			for k := range seen {
				texts = append(texts, k)
			}
			r.Sample(map[string]any{"stack": h.name, "harvested": texts})
		}
	}
}

// runC17InSwarm: within a secure swarm kind every place that computes an identity agrees.
func runC17InSwarm(r *ev.Run) {
	if r.Batch != 0 {
		return
	}
	o := stackOpts{n: 3}
	// p2pkeswarm
	check := func(name string, st *Stack, fp func(x509.PublicKey) p2p.PeerID) {
		caseID := "inswarm-" + name
		if !r.Want(caseID) {
			st.CloseAll()
			return
		}
		ids := make([]p2p.PeerID, len(st.Nodes))
		for i, n := range st.Nodes {
			pk := n.PublicKey().(x509.PublicKey)
			ids[i] = fp(pk)
			for _, a := range n.LocalAddrs() {
				r.Eval(1)
				if got := p2p.ExtractPeerID(a); got != ids[i] {
					r.Violate("C17/inswarm-localaddr-id/"+name, caseID, "LocalAddrs() carries an identity that is not the fingerprint of PublicKey()", map[string]any{"node": i, "addr": fmt.Sprint(a), "fingerprint": ids[i].String()})
				}
			}
		}
		for _, x := range harvestAddrs(st) {
			if x.Kind != "src" || x.Sender < 0 {
				continue
			}
			r.Eval(1)
			if got := p2p.ExtractPeerID(x.Addr); got != ids[x.Sender] {
				r.Violate("C17/inswarm-src-id/"+name, caseID, "the identity in a delivered message's source address is not the fingerprint of the sender's PublicKey()", map[string]any{"sender": x.Sender, "src": fmt.Sprint(x.Addr), "fingerprint": ids[x.Sender].String()})
			} else {
				r.NonTrivial("inswarm/" + name)
			}
		}
	}
	check("p2pke(mem)", buildP2PKEMem(o), func(k x509.PublicKey) p2p.PeerID { return p2pkeswarm.DefaultFingerprinter(&k) })
	if st, err := buildQUICMem(o); err == nil {
		check("quic(mem)", st, func(k x509.PublicKey) p2p.PeerID { return quicswarm.DefaultFingerprinter(k) })
	}
}
