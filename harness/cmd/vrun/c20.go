package main

import (
	"bytes"
	"errors"
	"fmt"
	"sort"
	"time"

	"go.brendoncarroll.net/p2p"
	"go.brendoncarroll.net/p2p/p/kademlia"

	"verifharness/internal/ev"
	"verifharness/internal/rng"
)

func init() { register("C20", runC20) }

type simKind int

const (
	simHonest simKind = iota
	simFailing
	simAdversary
)

type simNode struct {
	id   p2p.PeerID
	kind simKind
	node *kademlia.DHTNode // honest
	adv  string            // adversarial behaviour name
}

type simNet struct {
	g          *rng.R
	nodes      map[p2p.PeerID]*simNode
	order      []p2p.PeerID
	self       p2p.PeerID // the asker
	asks       map[p2p.PeerID]int
	answers    map[p2p.PeerID]bool
	askLog     []string
	mentioned  map[p2p.PeerID]bool
	accepted   map[p2p.PeerID]bool
	values     map[p2p.PeerID][]byte // value each node returned for Get
	untruthful []string              // honest nodes whose put reply disagrees with what they stored
	fabCap     int                   // remaining fabricated ids
	fabs       map[p2p.PeerID]bool
	limit      int // ask budget guard
	total      int
	knownHit   bool // some responder returned a node already known
}

type guardTrip struct{}

func nonZeroID(g *rng.R) p2p.PeerID {
	for {
		var id p2p.PeerID
		g.Fill(id[:])
		if !id.IsZero() {
			return id
		}
	}
}

func idDist(key []byte, id p2p.PeerID) []byte { return kademlia.Distance(key, id[:]) }

func (sn *simNet) mention(list []kademlia.NodeInfo) {
	for _, ni := range list {
		if sn.mentioned[ni.ID] {
			sn.knownHit = true
		}
		sn.mentioned[ni.ID] = true
	}
}

func (sn *simNet) noteAsk(id p2p.PeerID, what string) {
	sn.asks[id]++
	sn.total++
	if len(sn.askLog) < 400 {
		sn.askLog = append(sn.askLog, what+" "+id.String()[:8])
	}
	if sn.total > sn.limit {
		panic(guardTrip{})
	}
}

// advList produces an adversarial peer list.
func (sn *simNet) advList(n *simNode, key []byte) []kademlia.NodeInfo {
	var out []kademlia.NodeInfo
	add := func(id p2p.PeerID) { out = append(out, kademlia.NodeInfo{ID: id, Info: []byte("x")}) }
	switch n.adv {
	case "self":
		add(n.id)
		add(n.id)
	case "asker":
		add(sn.self)
	case "all":
		for _, id := range sn.order {
			add(id)
		}
	case "contacted":
		for id := range sn.asks {
			add(id)
		}
		sort.Slice(out, func(i, j int) bool { return bytes.Compare(out[i].ID[:], out[j].ID[:]) < 0 })
	case "farther":
		for _, id := range sn.order {
			if bytes.Compare(idDist(key, id), idDist(key, n.id)) > 0 {
				add(id)
			}
		}
	case "huge":
		for i := 0; i < 10000; i++ {
			add(sn.order[i%len(sn.order)])
		}
	case "duplicates":
		for i := 0; i < 3 && i < len(sn.order); i++ {
			add(sn.order[i])
			add(sn.order[i])
		}
	case "fabricate-closer":
		// fabricated ids ever closer to the key (answered by colluding fabrications) up to a cap
		for i := 0; i < 3 && sn.fabCap > 0; i++ {
			sn.fabCap--
			var id p2p.PeerID
			copy(id[:], key)
			d := idDist(key, n.id)
			lz := kademlia.LeadingZeros(d)
			if lz >= 250 {
				break
			}
			// share lz+1.. bits with key: flip a later bit
			p := lz + 1 + sn.g.Intn(3)
			if p > 255 {
				p = 255
			}
			id[p/8] ^= 0x80 >> uint(p%8)
			for j := p/8 + 1; j < 32; j++ {
				id[j] = byte(sn.g.Intn(256))
			}
			if id.IsZero() {
				continue
			}
			if _, ok := sn.nodes[id]; !ok {
				kind := simAdversary
				adv := "fabricate-closer"
				if sn.g.Chance(1, 3) {
					kind = simFailing
				}
				sn.nodes[id] = &simNode{id: id, kind: kind, adv: adv}
				sn.fabs[id] = true
			}
			add(id)
		}
	case "cycle":
		// point at the next node in ring order, closer or not
		for i, id := range sn.order {
			if id == n.id {
				add(sn.order[(i+1)%len(sn.order)])
				add(sn.order[(i+2)%len(sn.order)])
			}
		}
	}
	return out
}

func (sn *simNet) findNode(ni kademlia.NodeInfo, req kademlia.FindNodeReq) (kademlia.FindNodeRes, error) {
	sn.noteAsk(ni.ID, "find")
	n := sn.nodes[ni.ID]
	if n == nil || n.kind == simFailing {
		return kademlia.FindNodeRes{}, errors.New("unreachable")
	}
	var res kademlia.FindNodeRes
	if n.kind == simHonest {
		res, _ = n.node.HandleFindNode(sn.self, req)
	} else {
		res.Nodes = sn.advList(n, req.Target[:])
	}
	sn.answers[ni.ID] = true
	sn.mention(res.Nodes)
	return res, nil
}

func (sn *simNet) get(ni kademlia.NodeInfo, req kademlia.GetReq) (kademlia.GetRes, error) {
	sn.noteAsk(ni.ID, "get")
	n := sn.nodes[ni.ID]
	if n == nil || n.kind == simFailing {
		return kademlia.GetRes{}, errors.New("unreachable")
	}
	var res kademlia.GetRes
	if n.kind == simHonest {
		res, _ = n.node.HandleGet(sn.self, req)
	} else {
		res.Closer = sn.advList(n, req.Key)
		if sn.g.Chance(1, 2) {
			// values the caller's validator rejects, of several shapes (the empty one is non-nil: it is a value)
			switch sn.g.Intn(4) {
			case 0:
				res.Value = []byte{}
			case 1:
				res.Value = []byte("VALID") // a proper prefix of what the validator wants
			default:
				res.Value = []byte("INVALID-" + ni.ID.String()[:6])
			}
		}
	}
	sn.answers[ni.ID] = true
	if res.Value != nil {
		sn.values[ni.ID] = res.Value
	}
	sn.mention(res.Closer)
	return res, nil
}

func (sn *simNet) put(ni kademlia.NodeInfo, req kademlia.PutReq) (kademlia.PutRes, error) {
	sn.noteAsk(ni.ID, "put")
	n := sn.nodes[ni.ID]
	if n == nil || n.kind == simFailing {
		return kademlia.PutRes{}, errors.New("unreachable")
	}
	var res kademlia.PutRes
	if n.kind == simHonest {
		if sn.g.Chance(1, 2) {
			// this node already holds an older value under the key: the put is a refresh
			n.node.Put(append([]byte{}, req.Key...), []byte("VALID-older-value"), time.Minute)
		}
		res, _ = n.node.HandlePut(sn.self, req)
		// an honest node's reply must say what it did
		if stored := bytes.Equal(n.node.Get(req.Key), req.Value); stored != res.Accepted {
			sn.untruthful = append(sn.untruthful, fmt.Sprintf("node %s: holds the value afterwards=%v, replied accepted=%v", ni.ID.String()[:8], stored, res.Accepted))
		}
	} else {
		res.Closer = sn.advList(n, req.Key)
		res.Accepted = sn.g.Chance(1, 2)
	}
	sn.answers[ni.ID] = true
	if res.Accepted {
		sn.accepted[ni.ID] = true
	}
	sn.mention(res.Closer)
	return res, nil
}

type c20Case struct {
	Topology string   `json:"topology"`
	N        int      `json:"n"`
	Mix      string   `json:"mix"`
	Initial  int      `json:"initial"`
	Op       string   `json:"op"`
	Target   string   `json:"target"`
	Adv      []string `json:"adversaries,omitempty"`
}

func buildNet(g *rng.R, cs *c20Case) (*simNet, []p2p.PeerID) {
	sn := &simNet{g: g, nodes: map[p2p.PeerID]*simNode{}, asks: map[p2p.PeerID]int{}, answers: map[p2p.PeerID]bool{},
		mentioned: map[p2p.PeerID]bool{}, accepted: map[p2p.PeerID]bool{}, values: map[p2p.PeerID][]byte{}, fabs: map[p2p.PeerID]bool{}}
	sn.self = nonZeroID(g)
	n := rng.Pick(g, []int{1, 2, 5, 5, 30, 30, 300})
	cs.N = n
	topo := rng.Pick(g, []string{"sparse", "dense", "ring", "star", "clusters"})
	cs.Topology = topo
	mix := rng.Pick(g, []string{"honest", "honest", "some-failing", "some-adversarial", "mostly-adversarial"})
	cs.Mix = mix
	advKinds := []string{"self", "asker", "all", "contacted", "farther", "huge", "duplicates", "fabricate-closer", "cycle"}
	ids := make([]p2p.PeerID, n)
	for i := range ids {
		ids[i] = nonZeroID(g)
		if topo == "clusters" {
			// two clusters sharing a 2-byte prefix each
			if i%2 == 0 {
				ids[i][0], ids[i][1] = 0x11, 0x22
			} else {
				ids[i][0], ids[i][1] = 0xee, 0xdd
			}
		}
	}
	sn.order = ids
	now := func() time.Time { return time.Unix(3_000_000, 0) }
	advSeen := map[string]bool{}
	for _, id := range ids {
		sn2 := &simNode{id: id}
		x := g.Intn(100)
		switch mix {
		case "some-failing":
			if x < 30 {
				sn2.kind = simFailing
			}
		case "some-adversarial":
			if x < 25 {
				sn2.kind = simAdversary
			} else if x < 35 {
				sn2.kind = simFailing
			}
		case "mostly-adversarial":
			if x < 70 {
				sn2.kind = simAdversary
			}
		}
		if sn2.kind == simAdversary {
			sn2.adv = rng.Pick(g, advKinds)
			advSeen[sn2.adv] = true
		}
		if sn2.kind == simHonest {
			size := rng.Pick(g, []int{256, 256, 300})
			sn2.node = kademlia.NewDHTNode(kademlia.DHTNodeParams{LocalID: id, PeerCacheSize: size, DataCacheSize: 16, Now: now})
		}
		sn.nodes[id] = sn2
	}
	for a := range advSeen {
		cs.Adv = append(cs.Adv, a)
	}
	sort.Strings(cs.Adv)
	// routing tables
	for i, id := range ids {
		nd := sn.nodes[id]
		if nd.node == nil {
			continue
		}
		switch topo {
		case "dense", "clusters":
			for _, o := range ids {
				nd.node.AddPeer(o, []byte("i"))
			}
		case "ring":
			for d := 1; d <= 2; d++ {
				nd.node.AddPeer(ids[(i+d)%n], []byte("i"))
			}
		case "star":
			nd.node.AddPeer(ids[0], []byte("i"))
			if i == 0 {
				for _, o := range ids {
					nd.node.AddPeer(o, []byte("i"))
				}
			}
		default:
			k := 1 + g.Intn(4)
			for j := 0; j < k; j++ {
				nd.node.AddPeer(ids[g.Intn(n)], []byte("i"))
			}
		}
	}
	sn.fabCap = 40
	return sn, ids
}

func runC20(r *ev.Run) {
	r.Rule = "simulated networks (sparse/dense/ring/star/two clusters, N in {1,2,5,30,300}) whose honest responders are real DHTNodes and whose other responders fail or return cyclic/self/asker/contacted/farther/huge/duplicate/fabricated lists; per operation the ask ledger decides: each node id asked <=1 times, asks <= distinct ids mentioned, termination guard at 10x, and the result fields (Closest, Contacted/Responded, Accepted, Value/From, error) are recomputed from the ledger; honest nodes (half of which already hold an older value under the key) must reply accepted exactly when they hold the new value afterwards. non-trivial = >=3 asks and >=1 responder returned an already-known node; distinct = (topology, mix, |initial| class, op)"
	r.Assumptions = []string{
		"node ids are never all-zero (the library's 'no peer yet' sentinel); targets may be",
		"initial peer sets contain no duplicate ids",
		"FindNode.Contacted may count asks or successful answers; Get.Closest may be the nearest asked or the nearest answering node",
		"adversaries fabricate at most 40 new ids per operation",
	}
	n := pick(r, 4000, 40000)
	g := rng.New(r.Seed, "C20", fmt.Sprint(r.Batch))
	for i := 0; i < n; i++ {
		caseID := fmt.Sprintf("op-%d-%d", r.Batch, i)
		cg := g.Fork()
		if !r.Want(caseID) {
			continue
		}
		c20One(r, cg, caseID, i)
	}
}

func c20One(r *ev.Run, g *rng.R, caseID string, idx int) {
	cs := &c20Case{}
	sn, ids := buildNet(g, cs)
	// initial peer set (a set)
	ni := rng.Pick(g, []int{0, 1, 1, 2, 3, 3, 10})
	if ni > len(ids) {
		ni = len(ids)
	}
	cs.Initial = ni
	perm := g.Perm(len(ids))
	var initial []kademlia.NodeInfo
	for _, p := range perm[:ni] {
		initial = append(initial, kademlia.NodeInfo{ID: ids[p], Info: []byte("init")})
		sn.mentioned[ids[p]] = true
	}
	// target
	var target p2p.PeerID
	switch g.Intn(6) {
	case 0:
		target = ids[g.Intn(len(ids))]
		cs.Target = "present"
	case 1:
		cs.Target = "all-zero"
	case 2:
		for i := range target {
			target[i] = 0xff
		}
		cs.Target = "all-ones"
	case 3:
		if ni > 0 {
			target = initial[0].ID
			cs.Target = "initial-peer"
		} else {
			target = nonZeroID(g)
			cs.Target = "absent"
		}
	default:
		target = nonZeroID(g)
		cs.Target = "absent"
	}
	op := rng.Pick(g, []string{"findnode", "join", "get", "put"})
	cs.Op = op
	// store the value on some honest nodes for get
	key := target[:]
	goodValue := []byte("VALID-" + fmt.Sprint(idx))
	if op == "get" && g.Chance(2, 3) {
		for _, id := range ids {
			if nd := sn.nodes[id]; nd.node != nil && g.Chance(1, 4) {
				nd.node.Put(key, goodValue, time.Hour)
			}
		}
	}
	r.Eval(1)
	det := func(extra map[string]any) map[string]any {
		d := map[string]any{"case": cs, "self": sn.self.String(), "target": target.String(), "initial": len(initial), "asks_total": sn.total, "distinct_mentioned": len(sn.mentioned), "ask_log": sn.askLog}
		if len(sn.askLog) > 60 {
			d["ask_log"] = append(append([]string{}, sn.askLog[:60]...), "...")
		}
		for k, v := range extra {
			d[k] = v
		}
		return d
	}
	// guard: 10x the ids that can ever be mentioned (existing + fabrication cap)
	sn.limit = 10 * (len(ids) + 40 + 1)
	var fnRes *kademlia.DHTFindNodeResult
	var getRes *kademlia.DHTGetResult
	var putRes *kademlia.DHTPutResult
	var joinN int
	var opErr error
	added := map[p2p.PeerID]int{}
	addedTrue := 0
	minAccepted := rng.Pick(g, []int{0, 1, 2, 3})
	validate := func(v []byte) bool { return bytes.HasPrefix(v, []byte("VALID-")) }
	initCopy := append([]kademlia.NodeInfo{}, initial...)
	var pan any
	func() {
		defer func() { pan = recover() }()
		switch op {
		case "findnode":
			fnRes, opErr = kademlia.DHTFindNode(kademlia.DHTFindNodeParams{Initial: initCopy, Target: target, Ask: sn.findNode})
		case "join":
			joinN = kademlia.DHTJoin(kademlia.DHTJoinParams{Initial: initCopy, Target: target, Ask: sn.findNode, AddPeer: func(id p2p.PeerID, info []byte) bool {
				added[id]++
				ok := id != sn.self && g.Chance(4, 5)
				if ok {
					addedTrue++
				}
				return ok
			}})
		case "get":
			getRes, opErr = kademlia.DHTGet(kademlia.DHTGetParams{Key: key, Initial: initCopy, Validate: validate, Ask: sn.get})
		case "put":
			putRes, opErr = kademlia.DHTPut(kademlia.DHTPutParams{Initial: initCopy, Key: key, Value: []byte("VALID-put"), TTL: time.Minute, Ask: sn.put, MinAccepted: minAccepted})
		}
	}()
	sigOp := "/op=" + op
	if pan != nil {
		if _, ok := pan.(guardTrip); ok {
			r.Violate("C20/non-termination"+sigOp, caseID, fmt.Sprintf("operation had not terminated after %d asks with only %d distinct ids ever mentioned", sn.total, len(sn.mentioned)), det(nil))
		} else {
			empty := ""
			if len(initial) == 0 {
				empty = "/empty-initial"
			}
			r.Violate("C20/panic"+sigOp+empty, caseID, fmt.Sprintf("operation panicked: %v", pan), det(nil))
		}
		return
	}
	// --- bounded and non-redundant
	for id, c := range sn.asks {
		if c > 1 {
			r.Violate("C20/recontact"+sigOp, caseID, fmt.Sprintf("node %s was asked %d times in one operation", id.String()[:8], c), det(nil))
			return
		}
		if !sn.mentioned[id] {
			r.Violate("C20/asked-unmentioned"+sigOp, caseID, "a node was asked that was neither an initial peer nor returned by anyone", det(nil))
			return
		}
	}
	if sn.total > len(sn.mentioned) {
		r.Violate("C20/too-many-asks"+sigOp, caseID, fmt.Sprintf("%d asks for %d distinct ids", sn.total, len(sn.mentioned)), det(nil))
		return
	}
	nearestOf := func(set map[p2p.PeerID]bool) (best p2p.PeerID, ok bool) {
		for id := range set {
			if !ok || bytes.Compare(idDist(key, id), idDist(key, best)) < 0 {
				best, ok = id, true
			}
		}
		return
	}
	asked := map[p2p.PeerID]bool{}
	for id := range sn.asks {
		asked[id] = true
	}
	nAnswers := len(sn.answers)
	switch op {
	case "findnode":
		if (opErr != nil) != (fnRes.Closest != target) {
			r.Violate("C20/findnode-error-flag", caseID, fmt.Sprintf("error=%v but Closest==Target is %v", opErr, fnRes.Closest == target), det(nil))
			return
		}
		if len(sn.mentioned) > 0 || !fnRes.Closest.IsZero() {
			if !fnRes.Closest.IsZero() && !sn.mentioned[fnRes.Closest] {
				r.Violate("C20/findnode-closest-unmentioned", caseID, "Closest is an id nobody mentioned", det(nil))
				return
			}
			if best, ok := nearestOf(asked); ok && bytes.Compare(idDist(key, best), idDist(key, fnRes.Closest)) < 0 {
				r.Violate("C20/findnode-closest-not-nearest", caseID, "a contacted node is strictly nearer to the target than the reported Closest", det(map[string]any{"closest": fnRes.Closest.String(), "nearer": best.String()}))
				return
			}
			if fnRes.Closest != target && !fnRes.Closest.IsZero() && !asked[fnRes.Closest] {
				r.Violate("C20/findnode-closest-not-contacted", caseID, "reported Closest was never contacted", det(nil))
				return
			}
		}
		if fnRes.Contacted < nAnswers || fnRes.Contacted > sn.total {
			r.Violate("C20/findnode-contacted-count", caseID, fmt.Sprintf("Contacted=%d but %d asks / %d answers", fnRes.Contacted, sn.total, nAnswers), det(nil))
			return
		}
	case "join":
		for id, c := range added {
			if c > 1 {
				r.Violate("C20/join-added-twice", caseID, fmt.Sprintf("AddPeer called %d times for %s", c, id.String()[:8]), det(nil))
				return
			}
		}
		if joinN != addedTrue {
			r.Violate("C20/join-count", caseID, fmt.Sprintf("DHTJoin returned %d but AddPeer returned true %d times", joinN, addedTrue), det(nil))
			return
		}
	case "get":
		valid := map[p2p.PeerID]bool{}
		for id, v := range sn.values {
			if validate(v) {
				valid[id] = true
			}
		}
		gotValue := !getRes.From.IsZero() || getRes.Value != nil
		if (opErr == nil) != gotValue {
			r.Violate("C20/get-error-flag", caseID, fmt.Sprintf("error=%v but a value was returned=%v", opErr, gotValue), det(nil))
			return
		}
		if gotValue {
			if !asked[getRes.From] || !bytes.Equal(sn.values[getRes.From], getRes.Value) {
				r.Violate("C20/get-value-provenance", caseID, "returned Value did not come from the contacted node From", det(map[string]any{"from": getRes.From.String(), "value": string(getRes.Value)}))
				return
			}
			if !validate(getRes.Value) {
				r.Violate("C20/get-invalid-value", caseID, "returned Value did not pass validation", det(map[string]any{"value": string(getRes.Value)}))
				return
			}
		} else if len(valid) > 0 {
			r.Violate("C20/get-missed-value", caseID, "a contacted node returned a valid value but the operation reported none", det(nil))
			return
		}
		if getRes.NumContacted != sn.total || getRes.NumResponded != nAnswers {
			r.Violate("C20/get-counts", caseID, fmt.Sprintf("NumContacted=%d NumResponded=%d but %d asks / %d answers", getRes.NumContacted, getRes.NumResponded, sn.total, nAnswers), det(nil))
			return
		}
		if sn.total > 0 {
			b1, ok1 := nearestOf(asked)
			b2, ok2 := nearestOf(sn.answers)
			if !((ok1 && getRes.Closest == b1) || (ok2 && getRes.Closest == b2) || (!ok2 && getRes.Closest.IsZero())) {
				r.Violate("C20/get-closest", caseID, "Closest is neither the nearest contacted nor the nearest answering node", det(map[string]any{"closest": getRes.Closest.String(), "nearest_asked": b1.String(), "nearest_answered": b2.String()}))
				return
			}
		}
	case "put":
		if len(sn.untruthful) > 0 {
			r.Violate("C20/put-reply-untruthful", caseID, "an honest node's reply to a put disagrees with what it stored: "+sn.untruthful[0], det(map[string]any{"all": sn.untruthful}))
			return
		}
		if putRes.Accepted != len(sn.accepted) {
			r.Violate("C20/put-accepted-count", caseID, fmt.Sprintf("Accepted=%d but %d distinct nodes accepted", putRes.Accepted, len(sn.accepted)), det(nil))
			return
		}
		min := minAccepted
		if min < 1 {
			min = 2
		}
		if (opErr != nil) != (len(sn.accepted) < min) {
			r.Violate("C20/put-error-flag", caseID, fmt.Sprintf("error=%v with %d accepted, minimum %d", opErr, len(sn.accepted), min), det(nil))
			return
		}
		if putRes.Contacted != sn.total || putRes.Responded != nAnswers {
			r.Violate("C20/put-counts", caseID, fmt.Sprintf("Contacted=%d Responded=%d but %d asks / %d answers", putRes.Contacted, putRes.Responded, sn.total, nAnswers), det(nil))
			return
		}
		if best, ok := nearestOf(sn.accepted); ok {
			if putRes.Closest != best {
				r.Violate("C20/put-closest", caseID, "Closest is not the nearest node that accepted", det(map[string]any{"closest": putRes.Closest.String(), "nearest_accepting": best.String()}))
				return
			}
		} else if !putRes.Closest.IsZero() {
			r.Violate("C20/put-closest", caseID, "Closest set although nobody accepted", det(nil))
			return
		}
	}
	if sn.total >= 3 && sn.knownHit {
		ic := "0"
		switch {
		case ni == 1:
			ic = "1"
		case ni > 1 && ni <= 3:
			ic = "2-3"
		case ni > 3:
			ic = ">3"
		}
		r.NonTrivial(fmt.Sprintf("%s/%s/init=%s/%s", cs.Topology, cs.Mix, ic, op))
	}
	r.Count("asks_total", int64(sn.total))
	if idx < 3 {
		r.Sample(map[string]any{"case": cs, "asks": sn.total, "distinct_ids_mentioned": len(sn.mentioned), "answers": nAnswers})
	}
}
