package main

import (
	"context"
	"fmt"
	"strings"
	"sync"
	"time"

	"go.brendoncarroll.net/p2p"
	"go.brendoncarroll.net/p2p/f/x509"
	"go.brendoncarroll.net/p2p/p/p2pke"
	"go.brendoncarroll.net/p2p/verifhook"

	"verifharness/internal/ev"
	"verifharness/internal/rng"
)

func init() { register("C05", runC05) }

// capEnd is a channel whose outgoing messages are captured for the harness to route.
type capEnd struct {
	name string
	key  testKey
	ch   *p2pke.Channel
	mu   sync.Mutex
	out  [][]byte
	app  [][]byte // application data handed out by Deliver
}

func newCapEnd(name string, key testKey, accept func(*x509.PublicKey) bool, tm p2pke.VerifTimings) *capEnd {
	e := &capEnd{name: name, key: key}
	e.ch = p2pke.NewChannel(p2pke.ChannelConfig{
		Registry: pkeReg, PrivateKey: key.Priv, AcceptKey: accept, Logger: pkeNop,
		Send: func(x []byte) {
			e.mu.Lock()
			e.out = append(e.out, append([]byte{}, x...))
			e.mu.Unlock()
		},
		KeepAliveTimeout: tm.KeepAliveTimeout, HandshakeBackoff: tm.HandshakeBackoff, RekeyAfterTime: tm.RekeyAfterTime, RejectAfterTime: tm.RejectAfterTime,
	})
	return e
}

func (e *capEnd) take() [][]byte {
	e.mu.Lock()
	defer e.mu.Unlock()
	o := e.out
	e.out = nil
	return o
}

func (e *capEnd) deliver(b []byte) {
	out, _ := e.ch.Deliver(nil, append([]byte{}, b...))
	if out != nil {
		e.mu.Lock()
		e.app = append(e.app, out)
		e.mu.Unlock()
	}
}

func (e *capEnd) gotApp(pt []byte) bool {
	e.mu.Lock()
	defer e.mu.Unlock()
	return containsBytes(e.app, pt)
}

type predSpec struct {
	name string
	fn   func(*x509.PublicKey) bool
}

func predicates(okKey, badKey testKey) []predSpec {
	eq := func(a *x509.PublicKey, k testKey) bool { return x509.EqualPublicKeys(a, &k.Pub) }
	return []predSpec{
		{"accept-only-K", func(k *x509.PublicKey) bool { return eq(k, okKey) }},
		{"reject-only-K", func(k *x509.PublicKey) bool { return !eq(k, badKey) }},
		{"reject-all", func(k *x509.PublicKey) bool { return false }},
		{"by-fingerprint-bit", func(k *x509.PublicKey) bool {
			// a pure function of the key that happens to accept okKey and reject badKey
			return eq(k, okKey) || (!eq(k, badKey) && len(k.Data) > 0 && k.Data[0]&1 == 0)
		}},
	}
}

// c05World: the victim channel V, an honest peer P and the raw attacker M share V's transport.
type c05World struct {
	r        *ev.Run
	caseID   string
	V, P     *capEnd
	pred     predSpec
	sessKeys map[uint64]x509.PublicKey // V's sessions seen -> remote key they report
	log      []string
	bound    *x509.PublicKey
	failed   bool
	shape    string
	prop     string // property the violations are reported under ("" = C05)
}

func (w *c05World) logf(f string, a ...any) { w.log = append(w.log, fmt.Sprintf(f, a...)) }

func (w *c05World) fail(sig, desc string, extra map[string]any) {
	if w.failed {
		return
	}
	w.failed = true
	d := map[string]any{"predicate": w.pred.name, "scenario": w.shape, "steps": w.log}
	for k, v := range extra {
		d[k] = v
	}
	if w.prop != "" && strings.HasPrefix(sig, "C05/") {
		sig = w.prop + sig[3:]
	}
	w.r.Violate(sig, w.caseID, desc, d)
}

func (w *c05World) sampleSessions() {
	for _, s := range w.V.ch.VerifSessions() {
		if s != nil {
			w.sessKeys[s.VerifID()] = s.RemoteKey()
		}
	}
}

// checkV applies the C05 oracle to V's observable state.
func (w *c05World) checkV(after string) {
	w.sampleSessions()
	rk := w.V.ch.RemoteKey()
	if !rk.IsZero() {
		if !w.pred.fn(&rk) {
			w.fail("C05/bound-to-rejected-key/"+w.pred.name, "the channel reports a remote key for which its acceptance predicate returns false", map[string]any{"after": after})
			return
		}
		if w.bound != nil && !x509.EqualPublicKeys(&rk, w.bound) {
			w.fail("C05/remote-key-changed", "the channel's remote key changed after it had established a session with another key", map[string]any{"after": after})
			return
		}
		if w.bound == nil {
			k := rk
			w.bound = &k
		}
	}
	// ciphertexts produced by V's sessions: application data must only be encrypted to an accepted / the bound key
	for _, e := range verifhook.Drain() {
		if e.Kind != verifhook.KindCiphertext || e.B != 0 || e.C < 16 {
			continue
		}
		k, ok := w.sessKeys[e.A]
		if !ok {
			continue // a session of another channel
		}
		if k.IsZero() || !w.pred.fn(&k) {
			w.fail("C05/data-encrypted-to-rejected-key/"+w.pred.name, "application data was encrypted under a session whose remote key the predicate rejects", map[string]any{"after": after, "counter": e.C})
			return
		}
		if w.bound != nil && !x509.EqualPublicKeys(&k, w.bound) {
			w.fail("C05/data-encrypted-to-foreign-key", "application data was encrypted under a session with a key other than the one the channel is bound to", map[string]any{"after": after})
			return
		}
	}
}

// vSend tries V.Send with a short deadline; returns whether it succeeded.
func (w *c05World) vSend(pt []byte, wait time.Duration, pumpFn func()) bool {
	ctx, cf := context.WithTimeout(context.Background(), wait)
	defer cf()
	res := make(chan error, 1)
	go func() { res <- w.V.ch.Send(ctx, p2p.IOVec{pt}) }()
	for {
		select {
		case err := <-res:
			w.logf("V.Send -> %v", err)
			w.checkV("V.Send")
			return err == nil
		default:
			pumpFn()
			time.Sleep(time.Millisecond)
		}
	}
}

// route moves messages between V and an honest peer, applying a filter to each direction.
func (w *c05World) route(peer *capEnd, dropVtoP, dropPtoV func([]byte) bool) (moved int) {
	for _, m := range w.V.take() {
		w.checkV("V emitted")
		c, _ := msgCounter(m)
		if dropVtoP != nil && dropVtoP(m) {
			w.logf("V->%s ctr=%d DROPPED", peer.name, c)
			continue
		}
		w.logf("V->%s ctr=%d", peer.name, c)
		peer.deliver(m)
		moved++
	}
	for _, m := range peer.take() {
		c, _ := msgCounter(m)
		if dropPtoV != nil && dropPtoV(m) {
			w.logf("%s->V ctr=%d DROPPED", peer.name, c)
			continue
		}
		w.logf("%s->V ctr=%d", peer.name, c)
		before := len(w.V.app)
		w.V.deliver(m)
		if len(w.V.app) > before {
			w.onVApp(w.V.app[len(w.V.app)-1], peer.key, peer.name)
		}
		w.checkV("delivered to V")
		moved++
	}
	return moved
}

func (w *c05World) onVApp(pt []byte, fromKey testKey, who string) {
	w.logf("V handed out app data %q (sender %s)", pt, who)
	if !w.pred.fn(&fromKey.Pub) {
		w.fail("C05/data-from-rejected-key/"+w.pred.name, "the channel delivered application data that came from a key its predicate rejects", map[string]any{"sender": who})
		return
	}
	if w.bound != nil && !x509.EqualPublicKeys(&fromKey.Pub, w.bound) {
		w.fail("C05/data-from-foreign-key", "the channel delivered application data from a key other than the one it is bound to", map[string]any{"sender": who})
	}
}

func isCtr(c uint32) func([]byte) bool {
	return func(m []byte) bool { x, _ := msgCounter(m); return x == c }
}

func slowTimings() p2pke.VerifTimings {
	return p2pke.VerifTimings{HandshakeBackoff: 15 * time.Millisecond, RekeyAfterTime: 10 * time.Minute, RejectAfterTime: 15 * time.Minute, KeepAliveTimeout: 5 * time.Minute}
}

func runC05(r *ev.Run) {
	r.Rule = "victim channel with a pure acceptance predicate {accept-only-K, reject-only-K, reject-all, by-fingerprint-bit}; peers: honest channels and the raw attacker with accepted / rejected / other keys; roles {victim initiates, victim responds, both at once} x {RespDone delivered, dropped, overtaken by data}; then, once bound, handshakes by a different key as initiator and as on-path responder to the victim's own rekey. Oracles: RemoteKey()/Send/WaitReady/Deliver/encryption-site hook never involve a key the predicate rejects nor, once bound, another key; the established session keeps working after a refused attempt. Swarm layer: on p2pkeswarm, after honest all-pairs traffic, Tell/Ask to identity X at node Y's transport address must fail and never reach Y. non-trivial = the rejected/foreign handshake reached the point where the victim processed its RespHello/InitDone/data; distinct = (predicate, role, fault, phase)"
	verifhook.EnableSink(true)
	defer verifhook.EnableSink(false)
	okKey, badKey, otherOK := keyN(31), keyN(32), keyN(34)
	preds := predicates(okKey, badKey)
	g := rng.New(r.Seed, "C05", fmt.Sprint(r.Batch))
	reps := pick(r, 2, 30)
	idx := 0
	for rep := 0; rep < reps; rep++ {
		for _, pd := range preds {
			for _, role := range []string{"V-initiates", "V-responds", "both"} {
				for _, fault := range []string{"none", "respdone-dropped", "data-overtakes"} {
					for _, peerKind := range []string{"honest-rejected", "raw-rejected", "honest-accepted"} {
						idx++
						cg := g.Fork()
						if !r.Mine(idx) {
							continue
						}
						caseID := fmt.Sprintf("first-%s-%s-%s-%s-%d", pd.name, role, fault, peerKind, rep)
						if !r.Want(caseID) {
							continue
						}
						if pd.name == "reject-all" && peerKind == "honest-accepted" {
							continue
						}
						c05FirstContact(r, cg, caseID, pd, role, fault, peerKind, okKey, badKey)
					}
				}
			}
			for _, attack := range []string{"foreign-initiates", "foreign-answers-rekey", "foreign-answers-rekey-with-data", "foreign-initiates-after-lapse", "foreign-answers-rekey-after-lapse"} {
				for _, fk := range []string{"rejected-key", "other-accepted-key"} {
					idx++
					cg := g.Fork()
					if !r.Mine(idx) || pd.name == "reject-all" {
						continue
					}
					caseID := fmt.Sprintf("bound-%s-%s-%s-%d", pd.name, attack, fk, rep)
					if !r.Want(caseID) {
						continue
					}
					foreign := badKey
					if fk == "other-accepted-key" {
						foreign = otherOK
						if !pd.fn(&otherOK.Pub) {
							continue // this predicate accepts only K
						}
					}
					c05Bound(r, cg, caseID, pd, attack, fk, okKey, foreign)
				}
			}
		}
	}
	// the same property one layer up: p2pkeswarm's predicate for a dialled address is "fingerprint == the identity in the
	// address", and its channels are stored per transport address. After honest traffic has bound every channel, a Tell/Ask
	// to identity X at node Y's transport address must be refused and must not reach Y.
	for _, sf := range secureStacks(isThorough(r)) {
		if sf.Name != "p2pke(mem)" && sf.Name != "p2pke(udp)" {
			continue
		}
		idx++
		caseID := "swarm-wrong-identity-" + sf.Name
		if r.Mine(idx) && r.Want(caseID) {
			c04HonestAs(r, sf, g.Fork(), caseID, "C05")
		}
	}
}

func c05FirstContact(r *ev.Run, g *rng.R, caseID string, pd predSpec, role, fault, peerKind string, okKey, badKey testKey) {
	peerKey := badKey
	if peerKind == "honest-accepted" {
		peerKey = okKey
	}
	tm := slowTimings()
	w := &c05World{r: r, caseID: caseID, pred: pd, sessKeys: map[uint64]x509.PublicKey{}, shape: fmt.Sprintf("first-contact/%s/%s/%s", role, fault, peerKind)}
	w.V = newCapEnd("V", keyN(30), pd.fn, tm)
	defer w.V.ch.Close()
	verifhook.Drain()
	r.Eval(1)
	reached := false
	accepted := pd.fn(&peerKey.Pub)
	if peerKind == "raw-rejected" {
		// the raw attacker plays the peer with its rejected key, truthfully proving that key
		m := newRawPeer(peerKey, role != "V-initiates")
		if role == "V-initiates" || role == "both" {
			// V initiates: M answers V's hello as responder
			m = newRawPeer(peerKey, false)
			ok := make(chan bool, 1)
			go func() {
				ok <- w.vSend([]byte("secret-"+caseID), 400*time.Millisecond, func() {
					for _, x := range w.V.take() {
						c, _ := msgCounter(x)
						w.logf("V->M ctr=%d", c)
						w.checkV("V emitted")
						switch c {
						case 0:
							if m.out != nil {
								continue // already answered a hello
							}
							if m.ReadInitHello(x) == nil {
								rh := m.RespHello(advKeyBytes(peerKey), advSign(peerKey, advPurposeCB, m.cbBefore))
								w.logf("M->V RespHello (key rejected by predicate, valid signature)")
								w.V.deliver(rh)
								w.checkV("RespHello from rejected key")
							}
						case 2:
							if _, err := m.ReadInitDone(x); err == nil {
								reached = true
								if fault == "none" {
									w.logf("M->V RespDone")
									w.V.deliver(m.RespDone())
								} else {
									w.logf("M->V data (instead of / before RespDone)")
									before := len(w.V.app)
									w.V.deliver(m.NextData([]byte("attacker-data")))
									if len(w.V.app) > before {
										w.onVApp(w.V.app[len(w.V.app)-1], peerKey, "M")
									}
									if fault == "data-overtakes" {
										w.V.deliver(m.RespDone())
									}
								}
								w.checkV("completion from rejected key")
							}
						default:
							if c >= 16 {
								if pt, err := m.Open(x); err == nil {
									w.fail("C05/data-encrypted-to-rejected-key/"+pd.name, "the raw attacker holding a rejected key decrypted application data the victim sent", map[string]any{"plaintext": string(pt)})
								}
							}
						}
					}
				})
			}()
			if sent := <-ok; sent && !accepted {
				w.fail("C05/send-succeeded-to-rejected-key/"+pd.name, "Send returned nil although the only peer that ever completed a handshake holds a key the predicate rejects", nil)
			}
		} else {
			// V responds: M initiates truthfully with its rejected key
			w.logf("M->V InitHello (truthful, key rejected by predicate)")
			w.V.deliver(m.InitHelloOwn(time.Now()))
			w.checkV("InitHello from rejected key")
			time.Sleep(2 * time.Millisecond)
			for _, x := range w.V.take() {
				c, _ := msgCounter(x)
				w.logf("V->M ctr=%d", c)
				if c == 1 {
					reached = true
					if _, err := m.ReadRespHello(x); err == nil {
						w.V.deliver(m.InitDone(advSign(peerKey, advPurposeCB, m.cbAfter)))
						w.checkV("InitDone from rejected key")
						before := len(w.V.app)
						w.V.deliver(m.NextData([]byte("attacker-data")))
						if len(w.V.app) > before {
							w.onVApp(w.V.app[len(w.V.app)-1], peerKey, "M")
						}
						w.checkV("data from rejected key")
					}
				}
			}
			if w.vSend([]byte("secret-"+caseID), 60*time.Millisecond, func() { w.V.take() }) && !accepted {
				w.fail("C05/send-succeeded-to-rejected-key/"+pd.name, "Send returned nil after a handshake by a rejected key", nil)
			}
		}
		if reached && !w.failed {
			r.NonTrivial(fmt.Sprintf("%s/%s/%s/%s", pd.name, role, fault, peerKind))
		}
		return
	}
	// honest peer channel
	w.P = newCapEnd("P", peerKey, func(*x509.PublicKey) bool { return true }, tm)
	defer w.P.ch.Close()
	var dropPtoV, dropVtoP func([]byte) bool
	dropped := 0
	if fault != "none" {
		// whichever side is the responder has its RespDone dropped (first few)
		f := func(m []byte) bool {
			if c, _ := msgCounter(m); c == 3 && dropped < 6 {
				dropped++
				return true
			}
			return false
		}
		dropPtoV, dropVtoP = f, f
	}
	pumpFn := func() { w.route(w.P, dropVtoP, dropPtoV) }
	pSent := make(chan error, 1)
	pctx, pcf := context.WithTimeout(context.Background(), 600*time.Millisecond)
	defer pcf()
	startP := func() {
		go func() { pSent <- w.P.ch.Send(pctx, p2p.IOVec{[]byte("from-P-" + caseID)}) }()
	}
	vOK := false
	switch role {
	case "V-initiates":
		vOK = w.vSend([]byte("secret-"+caseID), 500*time.Millisecond, pumpFn)
		startP()
	case "V-responds":
		startP()
		deadline := time.Now().Add(300 * time.Millisecond)
		for time.Now().Before(deadline) {
			pumpFn()
			time.Sleep(time.Millisecond)
		}
		vOK = w.vSend([]byte("secret-"+caseID), 300*time.Millisecond, pumpFn)
	default:
		startP()
		vOK = w.vSend([]byte("secret-"+caseID), 500*time.Millisecond, pumpFn)
	}
	// let P's send and any data drain
	deadline := time.Now().Add(150 * time.Millisecond)
	for time.Now().Before(deadline) {
		pumpFn()
		time.Sleep(time.Millisecond)
	}
	w.checkV("end")
	if vOK && !accepted {
		w.fail("C05/send-succeeded-to-rejected-key/"+pd.name, "Send returned nil although the peer's key is rejected by the predicate", nil)
	}
	if !accepted && w.P.gotApp([]byte("secret-"+caseID)) {
		w.fail("C05/data-encrypted-to-rejected-key/"+pd.name, "a peer whose key the predicate rejects received and decrypted the victim's application data", nil)
	}
	if accepted && !vOK {
		// liveness is C07's business; record only
		r.Count("accepted_peer_send_not_completed", 1)
	}
	// did the rejected handshake get anywhere? (the peer produced a RespHello or an InitDone that V processed)
	for _, l := range w.log {
		if l == "P->V ctr=1" || l == "P->V ctr=2" || (len(l) > 8 && l[:8] == "P->V ctr" && l != "P->V ctr=0") {
			reached = true
		}
	}
	if (reached || accepted) && !w.failed {
		r.NonTrivial(fmt.Sprintf("%s/%s/%s/%s", pd.name, role, fault, peerKind))
	}
	if idxSample(caseID) || role == "V-initiates" {
		steps := w.log
		if len(steps) > 30 {
			steps = steps[:30]
		}
		r.Sample(map[string]any{"case": caseID, "steps": steps})
	}
}

func idxSample(id string) bool { return len(id) > 0 && hashStr(id)[0] == '0' && hashStr(id)[1] < '4' }

// c05Bound: V is established with P (accepted key K); then a different key tries.
func c05Bound(r *ev.Run, g *rng.R, caseID string, pd predSpec, attack, fk string, okKey, foreign testKey) {
	c05BoundAs(r, g, caseID, pd, attack, fk, okKey, foreign, "")
}

func c05BoundAs(r *ev.Run, g *rng.R, caseID string, pd predSpec, attack, fk string, okKey, foreign testKey, prop string) {
	// "-after-lapse": the session with K is left idle until it has lapsed (keep-alive of 120 ms, the rekey timer far away) and
	// the channel has noticed (a Send that gets no answer) before the foreign key tries: "once a channel has established a
	// session with some key, every later session on that channel is with the same key" does not end with the session.
	fullAttack := attack
	lapse := strings.HasSuffix(attack, "-after-lapse")
	attack = strings.TrimSuffix(attack, "-after-lapse")
	tm := slowTimings()
	if attack != "foreign-initiates" && !lapse {
		tm.RekeyAfterTime = 120 * time.Millisecond
		tm.RejectAfterTime = 5 * time.Second
		tm.KeepAliveTimeout = 5 * time.Second
	}
	if lapse {
		tm.KeepAliveTimeout = 120 * time.Millisecond
	}
	w := &c05World{r: r, caseID: caseID, pred: pd, sessKeys: map[uint64]x509.PublicKey{}, shape: "bound/" + fullAttack + "/" + fk, prop: prop}
	w.V = newCapEnd("V", keyN(30), pd.fn, tm)
	ptm := slowTimings()
	if lapse {
		ptm.KeepAliveTimeout = 120 * time.Millisecond
	}
	w.P = newCapEnd("P", okKey, func(*x509.PublicKey) bool { return true }, ptm)
	defer w.V.ch.Close()
	defer w.P.ch.Close()
	verifhook.Drain()
	r.Eval(1)
	pumpFn := func() { w.route(w.P, nil, nil) }
	if !w.vSend([]byte("hello-"+caseID), 2*time.Second, pumpFn) {
		r.Inconclusive("c05 bound: establishment with the accepted key did not complete " + caseID)
		return
	}
	for i := 0; i < 30; i++ {
		pumpFn()
		time.Sleep(time.Millisecond)
	}
	if w.bound == nil || !x509.EqualPublicKeys(w.bound, &okKey.Pub) {
		w.fail("C05/not-bound-after-establishment", "after establishing with K the channel does not report K as its remote key", nil)
		return
	}
	if lapse {
		time.Sleep(320 * time.Millisecond)
		w.V.take()
		w.P.take()
		if attack == "foreign-initiates" {
			// the channel notices the lapse when it is asked to send; nobody answers
			w.vSend([]byte("into-the-void-"+caseID), 40*time.Millisecond, func() {})
			w.V.take()
			w.checkV("send after lapse, unanswered")
		} else {
			sctx, scf := context.WithTimeout(context.Background(), 2*time.Second)
			defer scf()
			go w.V.ch.Send(sctx, p2p.IOVec{[]byte("after-lapse-" + caseID)})
		}
	}
	reached := false
	m := newRawPeer(foreign, attack == "foreign-initiates")
	switch attack {
	case "foreign-initiates":
		w.logf("M->V InitHello (truthful, key %s)", fk)
		w.V.deliver(m.InitHelloOwn(time.Now()))
		w.checkV("foreign InitHello")
		time.Sleep(2 * time.Millisecond)
		for _, x := range w.V.take() {
			c, _ := msgCounter(x)
			if c == 1 {
				reached = true
				w.logf("V->M RespHello (V answered a foreign key's InitHello)")
				if _, err := m.ReadRespHello(x); err == nil {
					w.V.deliver(m.InitDone(advSign(foreign, advPurposeCB, m.cbAfter)))
					w.checkV("foreign InitDone")
					before := len(w.V.app)
					w.V.deliver(m.NextData([]byte("foreign-data")))
					if len(w.V.app) > before {
						w.onVApp(w.V.app[len(w.V.app)-1], foreign, "M")
					}
					w.checkV("foreign data")
				}
			} else {
				w.P.deliver(x)
			}
		}
		reached = true // the hello itself was processed (signature and key checks ran)
	default:
		// wait for V's own rekey InitHello and answer it as an on-path responder with the foreign key
		deadline := time.Now().Add(3 * time.Second)
		answered := false
		for time.Now().Before(deadline) && !answered {
			for _, x := range w.V.take() {
				c, _ := msgCounter(x)
				if c == 0 && !answered {
					if m.ReadInitHello(x) == nil {
						w.logf("M->V RespHello for V's rekey (key %s, valid signature)", fk)
						w.V.deliver(m.RespHello(advKeyBytes(foreign), advSign(foreign, advPurposeCB, m.cbBefore)))
						w.checkV("foreign RespHello to rekey")
						answered = true
					}
				} else if c == 2 && answered {
					if _, err := m.ReadInitDone(x); err == nil {
						reached = true
					}
				} else {
					w.P.deliver(x)
				}
			}
			for _, x := range w.P.take() {
				w.V.deliver(x)
			}
			time.Sleep(time.Millisecond)
		}
		if !answered {
			r.Inconclusive("c05 bound: the victim never rekeyed " + caseID)
			return
		}
		time.Sleep(3 * time.Millisecond)
		for _, x := range w.V.take() {
			if c, _ := msgCounter(x); c == 2 {
				if _, err := m.ReadInitDone(x); err == nil {
					reached = true
					if attack == "foreign-answers-rekey-with-data" {
						w.logf("M->V data instead of RespDone")
						before := len(w.V.app)
						w.V.deliver(m.NextData([]byte("foreign-data")))
						if len(w.V.app) > before {
							w.onVApp(w.V.app[len(w.V.app)-1], foreign, "M")
						}
					} else {
						w.logf("M->V RespDone")
						w.V.deliver(m.RespDone())
					}
					w.checkV("foreign completion of rekey")
				}
			} else {
				w.P.deliver(x)
			}
		}
	}
	if lapse {
		// no session is established any more: whether the channel comes back up with P is C07's business
		w.checkV("end")
		if reached && !w.failed {
			r.NonTrivial(fmt.Sprintf("%s/%s/%s", pd.name, fullAttack, fk))
		}
		return
	}
	// the established session must be undisturbed: traffic with P still flows both ways, under K
	ok := false
	for i := 0; i < 5 && !ok; i++ {
		pt := []byte(fmt.Sprintf("after-%s-%d", caseID, i))
		if w.vSend(pt, 500*time.Millisecond, pumpFn) {
			for j := 0; j < 40 && !ok; j++ {
				pumpFn()
				// data V encrypts must not be readable by the foreign key holder
				ok = w.P.gotApp(pt)
				time.Sleep(time.Millisecond)
			}
		}
	}
	if !ok && !w.failed {
		w.fail("C05/established-session-disturbed/"+attack, "after a handshake attempt by a different key, traffic to the bound peer no longer gets through", nil)
	}
	back := []byte("back-" + caseID)
	pctx, pcf := context.WithTimeout(context.Background(), time.Second)
	go w.P.ch.Send(pctx, p2p.IOVec{back})
	got := false
	for j := 0; j < 300 && !got; j++ {
		pumpFn()
		got = w.V.gotApp(back)
		time.Sleep(time.Millisecond)
	}
	pcf()
	if !got && !w.failed {
		w.fail("C05/established-session-disturbed/"+attack, "after a handshake attempt by a different key, traffic from the bound peer is no longer delivered", nil)
	}
	w.checkV("end")
	if reached && !w.failed {
		r.NonTrivial(fmt.Sprintf("%s/%s/%s", pd.name, attack, fk))
	}
}
