package main

import (
	"bytes"
	"fmt"
	"hash/fnv"
	"sort"
	"time"

	"go.brendoncarroll.net/p2p/p/kademlia"

	"verifharness/internal/ev"
)

// ---- reference model of kademlia.Cache ----

type mEnt struct {
	Key     string
	Val     uint64
	Created time.Time
	Expires time.Time
}

type cacheModel struct {
	locus  []byte
	max    int
	minPer int
	m      map[string]mEnt
}

// bucketOf = number of leading bits on which key agrees with the locus, over |locus| bytes;
// bytes the key does not have count as agreeing (that is how the cache files short keys).
func (cm *cacheModel) bucketOf(key string) int {
	n := 0
	for i := 0; i < len(cm.locus); i++ {
		if i >= len(key) {
			n += 8
			continue
		}
		x := cm.locus[i] ^ key[i]
		if x == 0 {
			n += 8
			continue
		}
		for b := 7; b >= 0; b-- {
			if x&(1<<uint(b)) != 0 {
				break
			}
			n++
		}
		return n
	}
	return n
}

func (cm *cacheModel) bucketLens() map[int]int {
	out := map[int]int{}
	for k := range cm.m {
		out[cm.bucketOf(k)]++
	}
	return out
}

// evictionBucket returns the bucket a victim must come from, or -1 if no bucket exceeds its minimum.
func (cm *cacheModel) evictionBucket() int {
	lens := cm.bucketLens()
	best := -1
	for i, n := range lens {
		if n > cm.minPer && (best < 0 || i < best) {
			best = i
		}
	}
	return best
}

func (cm *cacheModel) hash(clock int) uint64 {
	keys := make([]string, 0, len(cm.m))
	for k := range cm.m {
		keys = append(keys, k)
	}
	sort.Strings(keys)
	h := fnv.New64a()
	fmt.Fprintf(h, "%d|", clock)
	for _, k := range keys {
		e := cm.m[k]
		fmt.Fprintf(h, "%q:%d:%d;", k, e.Created.UnixNano(), expNano(e.Expires))
	}
	return h.Sum64()
}

func expNano(t time.Time) int64 {
	if t.IsZero() {
		return -1
	}
	return t.UnixNano()
}

// ---- system under test + model, with the oracle applied after every operation ----

type kop struct {
	Kind string `json:"op"` // put update delete expire get
	Key  string `json:"key,omitempty"`
	T    int    `json:"t"`             // logical time of the op (now)
	TTL  int    `json:"ttl,omitempty"` // 0 = never expires
	Zero bool   `json:"zero_time,omitempty"`
}

func (o kop) String() string {
	switch o.Kind {
	case "put", "update":
		return fmt.Sprintf("%s(%q,t=%d,ttl=%d,zero=%v)", o.Kind, o.Key, o.T, o.TTL, o.Zero)
	case "expire":
		return fmt.Sprintf("expire(t=%d)", o.T)
	default:
		return fmt.Sprintf("%s(%q)", o.Kind, o.Key)
	}
}

type cacheSUT struct {
	c       *kademlia.Cache[uint64]
	cm      *cacheModel
	nextVal uint64
	ops     []kop
	evicts  int
	expired int
	dead    bool // model and cache diverged (after a violation); stop using
}

func ktime(t int) time.Time { return time.Unix(1_000_000+int64(t), 0).UTC() }

func newCacheSUT(locus []byte, max, minPer int) *cacheSUT {
	return &cacheSUT{
		c:  kademlia.NewCache[uint64](locus, max, minPer),
		cm: &cacheModel{locus: append([]byte{}, locus...), max: max, minPer: minPer, m: map[string]mEnt{}},
	}
}

type violFn func(sig, desc string, detail map[string]any)

func (s *cacheSUT) detail(extra map[string]any) map[string]any {
	d := map[string]any{
		"locus": fmt.Sprintf("%x", s.cm.locus), "max": s.cm.max, "min_per_bucket": s.cm.minPer,
		"ops": opsStrings(s.ops),
	}
	for k, v := range extra {
		d[k] = v
	}
	return d
}

func opsStrings(ops []kop) []string {
	out := make([]string, 0, len(ops))
	start := 0
	if len(ops) > 60 {
		start = len(ops) - 60
		out = append(out, fmt.Sprintf("... %d earlier ops omitted ...", start))
	}
	for _, o := range ops[start:] {
		out = append(out, o.String())
	}
	return out
}

// apply runs one operation against cache and model and checks the C18 oracle.
func (s *cacheSUT) apply(o kop, viol violFn) {
	if s.dead {
		return
	}
	s.ops = append(s.ops, o)
	fail := func(sig, desc string, extra map[string]any) {
		s.dead = true
		viol(sig+"/after="+o.Kind, desc, s.detail(extra))
	}
	defer func() {
		if p := recover(); p != nil {
			s.dead = true
			viol("C18/panic/op="+o.Kind, fmt.Sprintf("cache operation panicked: %v", p), s.detail(nil))
		}
	}()
	now := ktime(o.T)
	if o.Zero {
		now = time.Time{}
	}
	var exp time.Time
	if o.TTL > 0 {
		exp = ktime(o.T + o.TTL)
	}
	key := []byte(o.Key)
	switch o.Kind {
	case "put", "update":
		s.nextVal++
		val := s.nextVal
		prev, existed := s.cm.m[o.Key]
		var evicted *kademlia.Entry[uint64]
		var added bool
		// the caller owns its key buffers again as soon as the call returns: they are overwritten at once
		kbuf, kbuf2 := append([]byte{}, key...), append([]byte{}, key...)
		scribble := func() {
			for i := range kbuf {
				kbuf[i] ^= 0xA5
				kbuf2[i] ^= 0x5A
			}
		}
		if o.Kind == "put" {
			evicted, added = s.c.Put(kbuf, val, now, exp)
			scribble()
		} else {
			var sawExists bool
			var saw kademlia.Entry[uint64]
			evicted, added = s.c.Update(kbuf, func(e kademlia.Entry[uint64], exists bool) kademlia.Entry[uint64] {
				sawExists, saw = exists, e
				saw.Key = append([]byte{}, e.Key...)
				return kademlia.Entry[uint64]{Key: kbuf2, Value: val, CreatedAt: now, ExpiresAt: exp}
			})
			scribble()
			if s.cm.max > 0 {
				if sawExists != existed {
					fail("C18/update-exists-flag", fmt.Sprintf("Update's callback saw exists=%v but the key was present=%v", sawExists, existed), nil)
					return
				}
				if existed && (string(saw.Key) != o.Key || saw.Value != prev.Val || !saw.CreatedAt.Equal(prev.Created) || !saw.ExpiresAt.Equal(prev.Expires)) {
					fail("C18/update-stale-entry", "Update's callback was not given the latest entry stored under the key", map[string]any{"saw": saw.String()})
					return
				}
			}
		}
		if s.cm.max == 0 {
			if evicted != nil || added {
				fail("C18/zero-capacity", "a cache with capacity 0 reported an insertion or eviction", nil)
			}
			break
		}
		s.cm.m[o.Key] = mEnt{Key: o.Key, Val: val, Created: now, Expires: exp}
		if len(s.cm.m) > s.cm.max {
			if evicted == nil {
				fail("C18/no-victim-reported", "insertion pushed the cache over capacity but no eviction victim was reported", nil)
				return
			}
			vk := string(evicted.Key)
			me, ok := s.cm.m[vk]
			if !ok {
				fail("C18/victim-not-an-entry", "reported eviction victim is not an entry of the cache", map[string]any{"victim": fmt.Sprintf("%q", vk)})
				return
			}
			if evicted.Value != me.Val {
				fail("C18/victim-stale-value", "reported eviction victim does not carry the latest value stored under its key", map[string]any{"victim": fmt.Sprintf("%q", vk)})
				return
			}
			if want := s.cm.evictionBucket(); want >= 0 && s.cm.bucketOf(vk) != want {
				fail("C18/victim-wrong-bucket", fmt.Sprintf("eviction victim came from bucket %d but the farthest non-protected bucket is %d", s.cm.bucketOf(vk), want), map[string]any{"victim": fmt.Sprintf("%q", vk), "bucket_lens": fmt.Sprint(s.cm.bucketLens())})
				return
			}
			delete(s.cm.m, vk)
			s.evicts++
		} else if evicted != nil {
			fail("C18/needless-eviction", "an eviction victim was reported although the cache was not over capacity", map[string]any{"victim": fmt.Sprintf("%q", evicted.Key)})
			return
		}
		_, present := s.cm.m[o.Key]
		if want := present && !existed; added != want {
			fail("C18/added-flag", fmt.Sprintf("added=%v but key present now=%v, present before=%v", added, present, existed), nil)
			return
		}
	case "delete":
		me, existed := s.cm.m[o.Key]
		ret := s.c.Delete(key)
		if existed {
			if ret == nil || string(ret.Key) != o.Key || ret.Value != me.Val {
				fail("C18/delete-return", "Delete of a present key did not return that entry", nil)
				return
			}
			delete(s.cm.m, o.Key)
		}
	case "expire":
		got := s.c.Expire(nil, now)
		want := map[string]bool{}
		for k, e := range s.cm.m {
			if !e.Expires.IsZero() && e.Expires.Before(now) {
				want[k] = true
			}
		}
		gotSet := map[string]bool{}
		for _, e := range got {
			gotSet[string(e.Key)] = true
			me, ok := s.cm.m[string(e.Key)]
			if !ok || me.Val != e.Value {
				fail("C18/expire-returned-foreign", "Expire returned an entry the cache did not hold (or a stale value)", map[string]any{"entry": e.String()})
				return
			}
		}
		if len(gotSet) != len(got) {
			fail("C18/expire-duplicates", "Expire returned the same entry twice", nil)
			return
		}
		for k := range want {
			if !gotSet[k] {
				fail("C18/expire-missed", "an entry past its expiry time was not expired", map[string]any{"key": fmt.Sprintf("%q", k), "now": o.T})
				return
			}
		}
		for k := range gotSet {
			if !want[k] {
				fail("C18/expire-premature", "an entry that is not past its expiry time was expired", map[string]any{"key": fmt.Sprintf("%q", k), "now": o.T})
				return
			}
			delete(s.cm.m, k)
			s.expired++
		}
	case "get":
		v, ok := s.c.Get(key, now)
		me, existed := s.cm.m[o.Key]
		if ok != existed || (ok && v != me.Val) {
			fail("C18/get-mismatch", fmt.Sprintf("Get returned (%d,%v), model has (%d,%v)", v, ok, me.Val, existed), nil)
			return
		}
		if s.c.Contains(key, now) != existed {
			fail("C18/contains-mismatch", "Contains disagrees with the model", nil)
			return
		}
	}
	// state oracle after every operation
	if n := s.c.Count(); n != len(s.cm.m) {
		fail("C18/count-mismatch", fmt.Sprintf("Count()=%d but the cache should hold %d entries", n, len(s.cm.m)), nil)
		return
	}
	if s.c.Count() > s.cm.max {
		fail("C18/over-capacity", fmt.Sprintf("Count()=%d exceeds capacity %d", s.c.Count(), s.cm.max), nil)
		return
	}
	if err := s.c.VerifCheck(); err != nil {
		fail("C18/invariant", "structural invariant broken: "+err.Error(), nil)
		return
	}
	if full := s.c.IsFull(); full != (len(s.cm.m) >= s.cm.max) {
		fail("C18/isfull", fmt.Sprintf("IsFull()=%v with %d of %d entries", full, len(s.cm.m), s.cm.max), nil)
		return
	}
	seen := map[string]bool{}
	bad := ""
	s.c.ForEach(nil, func(e kademlia.Entry[uint64]) bool {
		k := string(e.Key)
		me, ok := s.cm.m[k]
		switch {
		case seen[k]:
			bad = fmt.Sprintf("entry %q enumerated twice", k)
		case !ok:
			bad = fmt.Sprintf("enumeration yields %q which should not be in the cache", k)
		case me.Val != e.Value:
			bad = fmt.Sprintf("entry %q has value %d, latest stored is %d", k, e.Value, me.Val)
		}
		seen[k] = true
		return bad == ""
	})
	if bad == "" && len(seen) != len(s.cm.m) {
		for k := range s.cm.m {
			if !seen[k] {
				bad = fmt.Sprintf("entry %q disappeared without being deleted, expired or reported evicted", k)
				break
			}
		}
	}
	if bad != "" {
		fail("C18/content-mismatch", bad, nil)
		return
	}
}

// ---- C19: nearest-first queries on a cache state ----

func (s *cacheSUT) contentKeys() []string {
	keys := make([]string, 0, len(s.cm.m))
	for k := range s.cm.m {
		keys = append(keys, k)
	}
	sort.Strings(keys)
	return keys
}

func distCmp(q []byte, a, b string) int {
	return bytes.Compare(kademlia.Distance(q, []byte(a)), kademlia.Distance(q, []byte(b)))
}

// checkQuery checks ForEach / Closest / ForEachCloser for one query key against brute force.
func (s *cacheSUT) checkQuery(q []byte, viol violFn) (nontrivial bool) {
	if s.dead {
		return false
	}
	det := func(extra map[string]any) map[string]any {
		d := s.detail(extra)
		d["query"] = fmt.Sprintf("%x", q)
		d["query_nil"] = q == nil
		d["content"] = fmt.Sprintf("%q", s.contentKeys())
		return d
	}
	defer func() {
		if p := recover(); p != nil {
			viol("C19/panic/query", fmt.Sprintf("query panicked: %v", p), det(nil))
		}
	}()
	var seq []string
	// a reader may query again from inside a callback (read locks nest): the outer enumeration must not be disturbed
	nested := 0
	s.c.ForEach(q, func(e kademlia.Entry[uint64]) bool {
		seq = append(seq, string(e.Key))
		if len(seq)%3 == 1 && nested < 6 {
			nested++
			q2 := append([]byte{}, e.Key...)
			if len(q2) > 0 {
				q2[len(q2)-1] ^= 0x5A
				q2[0] ^= byte(nested) << 5
			}
			s.c.Closest(q2)
			s.c.ForEach(q2, func(kademlia.Entry[uint64]) bool { return true })
			s.c.ForEachCloser(q2, func(kademlia.Entry[uint64]) bool { return true })
		}
		return true
	})
	seen := map[string]bool{}
	for _, k := range seq {
		if seen[k] {
			viol("C19/foreach-duplicate", "ForEach visited an entry twice", det(map[string]any{"sequence": fmt.Sprintf("%q", seq)}))
			return
		}
		seen[k] = true
		if _, ok := s.cm.m[k]; !ok {
			viol("C19/foreach-foreign", "ForEach visited an entry that is not in the cache", det(map[string]any{"sequence": fmt.Sprintf("%q", seq)}))
			return
		}
	}
	if len(seq) != len(s.cm.m) {
		viol("C19/foreach-incomplete", fmt.Sprintf("ForEach visited %d of %d entries", len(seq), len(s.cm.m)), det(map[string]any{"sequence": fmt.Sprintf("%q", seq)}))
		return
	}
	for i := 1; i < len(seq); i++ {
		if distCmp(q, seq[i-1], seq[i]) > 0 {
			viol("C19/foreach-order", "ForEach is not in non-decreasing XOR distance from the query", det(map[string]any{
				"sequence": fmt.Sprintf("%q", seq), "at": i,
				"d_prev": fmt.Sprintf("%x", kademlia.Distance(q, []byte(seq[i-1]))), "d_next": fmt.Sprintf("%x", kademlia.Distance(q, []byte(seq[i])))}))
			return
		}
	}
	// Closest
	cl := s.c.Closest(q)
	if len(s.cm.m) == 0 {
		if cl != nil {
			viol("C19/closest-on-empty", "Closest returned an entry from an empty cache", det(nil))
			return
		}
	} else {
		if cl == nil {
			viol("C19/closest-nil", "Closest returned nil on a non-empty cache", det(nil))
			return
		}
		for k := range s.cm.m {
			if distCmp(q, k, string(cl.Key)) < 0 {
				viol("C19/closest-not-minimum", "Closest did not return a minimum-distance entry", det(map[string]any{"closest": fmt.Sprintf("%q", cl.Key), "nearer": fmt.Sprintf("%q", k)}))
				return
			}
		}
	}
	// ForEachCloser = { e : Distance(q,e) < Distance(q,locus) }
	wantCloser := map[string]bool{}
	for k := range s.cm.m {
		if distCmp(q, k, string(s.cm.locus)) < 0 {
			wantCloser[k] = true
		}
	}
	gotCloser := map[string]bool{}
	s.c.ForEachCloser(q, func(e kademlia.Entry[uint64]) bool {
		gotCloser[string(e.Key)] = true
		return true
	})
	for k := range wantCloser {
		if !gotCloser[k] {
			viol("C19/closer-missed", "ForEachCloser missed an entry that is nearer to the key than the locus is", det(map[string]any{"missed": fmt.Sprintf("%q", k), "got": fmt.Sprint(len(gotCloser)), "want": fmt.Sprint(len(wantCloser))}))
			return
		}
	}
	for k := range gotCloser {
		if !wantCloser[k] {
			viol("C19/closer-extra", "ForEachCloser yielded an entry that is not nearer to the key than the locus is", det(map[string]any{"extra": fmt.Sprintf("%q", k)}))
			return
		}
	}
	// non-trivial: >=2 entries spread over >=2 buckets other than the query's own
	lens := s.cm.bucketLens()
	qb := s.cm.bucketOf(string(q))
	nb := 0
	for b := range lens {
		if b != qb {
			nb++
		}
	}
	return len(s.cm.m) >= 2 && nb >= 2
}

// checkMatching checks ForEachMatching(prefix, nbits) against brute force.
func (s *cacheSUT) checkMatching(prefix []byte, nbits int, viol violFn) {
	if s.dead {
		return
	}
	// exact-capacity copy, so that slicing past len is caught like it would be for a network buffer
	p := make([]byte, len(prefix))
	copy(p, prefix)
	det := func(extra map[string]any) map[string]any {
		d := s.detail(extra)
		d["prefix"] = fmt.Sprintf("%x", p)
		d["nbits"] = nbits
		return d
	}
	defer func() {
		if r := recover(); r != nil {
			viol("C19/panic/ForEachMatching", fmt.Sprintf("ForEachMatching panicked: %v", r), det(nil))
		}
	}()
	got := map[string]bool{}
	s.c.ForEachMatching(p, nbits, func(e kademlia.Entry[uint64]) bool {
		got[string(e.Key)] = true
		return true
	})
	for k := range s.cm.m {
		want := bitsMatch([]byte(k), p, nbits)
		if want != got[k] {
			viol("C19/matching-mismatch", fmt.Sprintf("ForEachMatching: entry %q matching=%v but yielded=%v", k, want, got[k]), det(nil))
			return
		}
	}
}

func bitsMatch(x, prefix []byte, nbits int) bool {
	if len(x)*8 < nbits {
		return false
	}
	for i := 0; i < nbits; i++ {
		bx := x[i/8] >> (7 - uint(i%8)) & 1
		bp := prefix[i/8] >> (7 - uint(i%8)) & 1
		if bx != bp {
			return false
		}
	}
	return true
}

func mkViol(r *ev.Run, caseID string) violFn {
	return func(sig, desc string, detail map[string]any) {
		r.Violate(sig, caseID, desc, detail)
	}
}
