package main

import (
	"crypto/ed25519"
	"encoding/binary"
	"fmt"
	"sync"
	"time"

	"go.brendoncarroll.net/p2p/f/x509"
	"go.brendoncarroll.net/p2p/p/p2pke"
	"go.uber.org/zap"
)

var (
	pkeReg    = x509.DefaultRegistry()
	pkeNop    = zap.NewNop()
	pkeT0     = time.Unix(1_700_000_000, 0)
	keyCacheM sync.Mutex
	keyCache  = map[int]testKey{}
)

type testKey struct {
	Std  ed25519.PrivateKey
	Priv x509.PrivateKey
	Pub  x509.PublicKey
}

// keyN returns the deterministic test key number i.
func keyN(i int) testKey {
	keyCacheM.Lock()
	defer keyCacheM.Unlock()
	if k, ok := keyCache[i]; ok {
		return k
	}
	seed := make([]byte, ed25519.SeedSize)
	binary.BigEndian.PutUint64(seed, uint64(i)+0x5eed)
	copy(seed[8:], "verif-harness-test-key")
	std := ed25519.NewKeyFromSeed(seed)
	algo, signer := x509.SignerFromStandard(std)
	priv, err := pkeReg.StoreSigner(algo, signer)
	if err != nil {
		panic(err)
	}
	pub, err := pkeReg.PublicFromPrivate(&priv)
	if err != nil {
		panic(err)
	}
	k := testKey{Std: std, Priv: priv, Pub: pub}
	keyCache[i] = k
	return k
}

func newSession(k testKey, isInit bool, now time.Time) *p2pke.Session {
	return p2pke.NewSession(p2pke.SessionConfig{
		Registry:    pkeReg,
		PrivateKey:  k.Priv,
		IsInit:      isInit,
		Now:         now,
		RejectAfter: p2pke.RejectAfterTime,
		Logger:      pkeNop,
	})
}

func msgCounter(b []byte) (uint32, bool) {
	if len(b) < 4 {
		return 0, false
	}
	return binary.BigEndian.Uint32(b[:4]), true
}

// sessCall runs fn and converts a panic into a value.
func sessCall(fn func()) (pan any) {
	defer func() { pan = recover() }()
	fn()
	return nil
}

func hexShort(b []byte) string {
	if len(b) > 24 {
		return fmt.Sprintf("%x..(%d)", b[:24], len(b))
	}
	return fmt.Sprintf("%x", b)
}
