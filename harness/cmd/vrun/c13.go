package main

import (
	"context"
	"encoding/binary"
	"errors"
	"fmt"
	"sort"
	"strings"
	"sync"
	"sync/atomic"
	"time"

	"github.com/anishathalye/porcupine"
	"go.brendoncarroll.net/p2p"
	"go.brendoncarroll.net/p2p/s/memswarm"
	"go.brendoncarroll.net/p2p/s/swarmutil"
	"go.brendoncarroll.net/p2p/s/udpswarm"
	"go.brendoncarroll.net/p2p/verifhook"

	"verifharness/internal/ev"
	"verifharness/internal/gor"
	"verifharness/internal/rng"
)

func init() { register("C13", runC13) }

// ---- history recording ----

type hKind uint8

const (
	hDeliverCall hKind = iota
	hDeliverRet
	hRecvCall
	hCbEnter
	hCbExit
	hRecvRet
	hCancel
	hClose
	hPurge
)

var hKindNames = []string{"deliver-call", "deliver-ret", "recv-call", "cb-enter", "cb-exit", "recv-ret", "cancel", "close", "purge"}

type hEv struct {
	Stamp int64
	Kind  hKind
	Actor int    // goroutine index
	Call  int    // per-history unique call number
	Msg   uint64 // message id (deliver / callback)
	Err   string // "", "ctx", "closed", "other:..."
	N     int
}

type history struct {
	mu    sync.Mutex
	stamp int64
	evs   []hEv
	calls int64
}

func (h *history) add(e hEv) int64 {
	h.mu.Lock()
	h.stamp++
	e.Stamp = h.stamp
	h.evs = append(h.evs, e)
	s := h.stamp
	h.mu.Unlock()
	return s
}

func (h *history) newCall() int { return int(atomic.AddInt64(&h.calls, 1)) }

func classifyErr(err error, ctx context.Context) string {
	switch {
	case err == nil:
		return ""
	case errors.Is(err, context.Canceled) || errors.Is(err, context.DeadlineExceeded):
		if ctx.Err() == nil {
			return "ctx-but-own-context-live"
		}
		return "ctx"
	case p2p.IsErrClosed(err):
		return "closed"
	default:
		return "other:" + err.Error()
	}
}

func (h *history) dump(max int) []string {
	h.mu.Lock()
	defer h.mu.Unlock()
	out := []string{}
	start := 0
	if len(h.evs) > max {
		start = len(h.evs) - max
	}
	for _, e := range h.evs[start:] {
		out = append(out, fmt.Sprintf("%d %s g%d call%d m%d err=%q n=%d", e.Stamp, hKindNames[e.Kind], e.Actor, e.Call, e.Msg, e.Err, e.N))
	}
	return out
}

// ---- rendezvous trace specification (TellHub, AskHub) ----

type traceResult struct {
	sig, desc  string
	shape      string
	concCancel bool
	delivered  int
}

func checkRendezvous(h *history, hub string, isQueue bool) (res traceResult) {
	h.mu.Lock()
	evs := append([]hEv{}, h.evs...)
	h.mu.Unlock()
	type dcall struct {
		call, ret int64
		err       string
		done      bool
	}
	type rcall struct {
		call, ret int64
		err       string
		done      bool
		cbs       []uint64
	}
	type cb struct {
		enter, exit int64
		rcall       int
	}
	delivers := map[uint64]*dcall{}
	recvs := map[int]*rcall{}
	cbs := map[uint64][]*cb{}
	var cancels, closes []int64
	var shape strings.Builder
	for _, e := range evs {
		if shape.Len() < 4000 {
			shape.WriteByte("DdRcxrCKP"[e.Kind])
		}
		switch e.Kind {
		case hDeliverCall:
			delivers[e.Msg] = &dcall{call: e.Stamp}
		case hDeliverRet:
			d := delivers[e.Msg]
			d.ret, d.err, d.done = e.Stamp, e.Err, true
		case hRecvCall:
			recvs[e.Call] = &rcall{call: e.Stamp}
		case hCbEnter:
			cbs[e.Msg] = append(cbs[e.Msg], &cb{enter: e.Stamp, rcall: e.Call})
			recvs[e.Call].cbs = append(recvs[e.Call].cbs, e.Msg)
		case hCbExit:
			l := cbs[e.Msg]
			l[len(l)-1].exit = e.Stamp
		case hRecvRet:
			rc := recvs[e.Call]
			rc.ret, rc.err, rc.done = e.Stamp, e.Err, true
		case hCancel:
			cancels = append(cancels, e.Stamp)
		case hClose:
			closes = append(closes, e.Stamp)
		}
	}
	res.shape = hashStr(shape.String())
	fail := func(sig, desc string) traceResult {
		res.sig, res.desc = "C13/"+sig+"/"+hub, desc
		return res
	}
	okDelivers := 0
	for m, d := range delivers {
		l := cbs[m]
		if len(l) > 1 {
			return fail("delivered-to-two-receivers", fmt.Sprintf("message %d entered %d callbacks", m, len(l)))
		}
		if !d.done {
			continue // still open: may take effect later
		}
		if isQueue {
			// queue: Deliver is non-blocking; N=1 accepted, N=0 refused
			continue
		}
		if d.err == "" {
			okDelivers++
			if len(l) != 1 {
				return fail("success-without-callback", fmt.Sprintf("Deliver(%d) returned nil but %d callbacks saw the message", m, len(l)))
			}
			c := l[0]
			if c.exit == 0 || c.exit > d.ret {
				return fail("success-before-callback-finished", fmt.Sprintf("Deliver(%d) returned success before the chosen callback had finished with the message", m))
			}
			rc := recvs[c.rcall]
			if !(rc.call < d.ret && (rc.ret == 0 || d.call < rc.ret)) {
				return fail("no-rendezvous", fmt.Sprintf("Deliver(%d) and the receive that took it do not overlap", m))
			}
		} else {
			if len(l) != 0 {
				return fail("error-but-delivered", fmt.Sprintf("Deliver(%d) returned an error (%s) although a callback saw the message", m, d.err))
			}
			if d.err != "ctx" && d.err != "closed" {
				return fail("unexpected-deliver-error", fmt.Sprintf("Deliver(%d) returned %q, which is neither its context's error nor the close error", m, d.err))
			}
		}
	}
	ranCbs := 0
	for call, rc := range recvs {
		ranCbs += len(rc.cbs)
		if !rc.done {
			continue
		}
		if rc.err == "" && len(rc.cbs) != 1 {
			return fail("receive-nil-without-callback", fmt.Sprintf("receive call %d returned nil but its callback ran %d times", call, len(rc.cbs)))
		}
		if rc.err != "" && len(rc.cbs) != 0 {
			return fail("receive-error-after-callback", fmt.Sprintf("receive call %d returned %q after its callback had run (message lost to the caller)", call, rc.err))
		}
		if rc.err != "" && rc.err != "ctx" && rc.err != "closed" {
			return fail("unexpected-receive-error", fmt.Sprintf("receive call %d returned %q, which is neither its own context's error nor the close error", call, rc.err))
		}
		if rc.err == "closed" && len(closes) == 0 {
			return fail("closed-error-without-close", fmt.Sprintf("receive call %d returned the close error although the hub was never closed", call))
		}
	}
	if !isQueue && okDelivers != ranCbs {
		// conservation at quiescence (every call has returned when this runs)
		open := 0
		for _, d := range delivers {
			if !d.done {
				open++
			}
		}
		if open == 0 {
			return fail("conservation", fmt.Sprintf("%d successful delivers but %d callbacks ran", okDelivers, ranCbs))
		}
	}
	// non-triviality: a cancel or close concurrent with some Deliver
	for _, c := range append(cancels, closes...) {
		for _, d := range delivers {
			if d.call < c && (d.ret == 0 || c < d.ret) {
				res.concCancel = true
			}
		}
	}
	res.delivered = ranCbs
	return res
}

// ---- workload ----

type hubKind int

const (
	hubTell hubKind = iota
	hubAsk
)

func c13Payload(id uint64, n int) []byte {
	b := make([]byte, 8+n)
	binary.BigEndian.PutUint64(b, id)
	x := id*0x9E3779B97F4A7C15 + 1
	for i := 8; i < len(b); i++ {
		x ^= x << 13
		x ^= x >> 7
		x ^= x << 17
		b[i] = byte(x)
	}
	return b
}

func c13PayloadOK(b []byte) (uint64, bool) {
	if len(b) < 8 {
		return 0, false
	}
	id := binary.BigEndian.Uint64(b)
	want := c13Payload(id, len(b)-8)
	return id, string(want) == string(b)
}

type ctxPlan int

const (
	ctxLive ctxPlan = iota // cancelled only at the end of the history
	ctxCancelSoon
	ctxPreCancelled
	ctxDeadline
)

func armHooks(g *rng.R, ids []uint16) {
	verifhook.DisarmAll()
	verifhook.Seed(g.U64())
	for _, id := range ids {
		switch g.Intn(4) {
		case 0:
		case 1:
			verifhook.Arm(id, &verifhook.Action{Yields: 1 + g.Intn(3), Prob: 0x8000})
		case 2:
			verifhook.Arm(id, &verifhook.Action{Sleep: time.Duration(g.Intn(200)) * time.Microsecond, Prob: 0x4000})
		default:
			verifhook.Arm(id, &verifhook.Action{Yields: 2})
		}
	}
}

func c13HubHistory(r *ev.Run, g *rng.R, caseID string, kind hubKind) {
	name := "tellhub"
	if kind == hubAsk {
		name = "askhub"
	}
	h := &history{}
	tell := swarmutil.NewTellHub[memAddr]()
	ask := swarmutil.NewAskHub[memAddr]()
	armHooks(g, []uint16{verifhook.TellHubReceiveEnter, verifhook.TellHubReceiveBlock, verifhook.TellHubDeliver, verifhook.AskHubServe, verifhook.AskHubDeliver})
	defer verifhook.DisarmAll()
	nProd, nRecv := g.Range(2, 8), g.Range(1, 8)
	perProd := g.Range(5, 40)
	doClose := g.Chance(1, 3)
	var allCancels []context.CancelFunc
	var cmu sync.Mutex
	var stop atomic.Bool
	var msgID atomic.Uint64
	var bad atomic.Value // first immediate violation (payload / response mismatch)
	mkCtx := func(lg *rng.R, actor int) (context.Context, ctxPlan) {
		plan := ctxPlan(lg.Intn(4))
		if lg.Chance(1, 2) {
			plan = ctxLive
		}
		var ctx context.Context
		var cf context.CancelFunc
		switch plan {
		case ctxDeadline:
			ctx, cf = context.WithTimeout(context.Background(), time.Duration(lg.Intn(800))*time.Microsecond)
		default:
			ctx, cf = context.WithCancel(context.Background())
		}
		switch plan {
		case ctxPreCancelled:
			cf()
			h.add(hEv{Kind: hCancel, Actor: actor})
		case ctxCancelSoon:
			d := time.Duration(lg.Intn(600)) * time.Microsecond
			time.AfterFunc(d, func() {
				h.add(hEv{Kind: hCancel, Actor: actor})
				cf()
			})
		}
		cmu.Lock()
		allCancels = append(allCancels, cf)
		cmu.Unlock()
		return ctx, plan
	}
	var wg sync.WaitGroup
	done := make(chan struct{})
	for p := 0; p < nProd; p++ {
		p := p
		lg := g.Fork()
		wg.Add(1)
		go func() {
			defer wg.Done()
			c13worker(func() {
				for i := 0; i < perProd && !stop.Load(); i++ {
					id := msgID.Add(1)
					ctx, _ := mkCtx(lg, p)
					payload := c13Payload(id, lg.Intn(48))
					msg := p2p.Message[memAddr]{Src: memAddr{N: int(id)}, Dst: memAddr{N: p}, Payload: payload}
					h.add(hEv{Kind: hDeliverCall, Actor: p, Msg: id})
					var err error
					if kind == hubTell {
						err = tell.Deliver(ctx, msg)
					} else {
						resp := make([]byte, 64)
						var n int
						n, err = ask.Deliver(ctx, resp, msg)
						if err == nil {
							want := fmt.Sprintf("R%d", id)
							if n < 0 || n > len(resp) || string(resp[:n]) != want {
								bad.CompareAndSwap(nil, fmt.Sprintf("AskHub.Deliver for message %d returned %q, its handler produced %q", id, resp[:max0(n)], want))
							}
						}
					}
					h.add(hEv{Kind: hDeliverRet, Actor: p, Msg: id, Err: classifyErr(err, ctx)})
					if lg.Chance(1, 4) {
						time.Sleep(time.Duration(lg.Intn(100)) * time.Microsecond)
					}
				}
			})
		}()
	}
	for q := 0; q < nRecv; q++ {
		q := 100 + q
		lg := g.Fork()
		wg.Add(1)
		go func() {
			defer wg.Done()
			c13worker(func() {
				for !stop.Load() {
					call := h.newCall()
					ctx, _ := mkCtx(lg, q)
					h.add(hEv{Kind: hRecvCall, Actor: q, Call: call})
					var err error
					cbFn := func(m p2p.Message[memAddr]) uint64 {
						id, ok := c13PayloadOK(m.Payload)
						h.add(hEv{Kind: hCbEnter, Actor: q, Call: call, Msg: id})
						if !ok || m.Src.N != int(id) {
							bad.CompareAndSwap(nil, fmt.Sprintf("callback saw an altered message (id %d, src %d, payload ok=%v)", id, m.Src.N, ok))
						}
						if lg.Chance(1, 3) {
							time.Sleep(time.Duration(lg.Intn(150)) * time.Microsecond)
						}
						return id
					}
					if kind == hubTell {
						err = tell.Receive(ctx, func(m p2p.Message[memAddr]) {
							id := cbFn(m)
							h.add(hEv{Kind: hCbExit, Actor: q, Call: call, Msg: id})
						})
					} else {
						err = ask.ServeAsk(ctx, func(_ context.Context, resp []byte, m p2p.Message[memAddr]) int {
							id := cbFn(m)
							n := copy(resp, fmt.Sprintf("R%d", id))
							h.add(hEv{Kind: hCbExit, Actor: q, Call: call, Msg: id})
							return n
						})
					}
					h.add(hEv{Kind: hRecvRet, Actor: q, Call: call, Err: classifyErr(err, ctx)})
					if err != nil && classifyErr(err, ctx) == "closed" {
						return
					}
				}
			})
		}()
	}
	go func() { wg.Wait(); close(done) }()
	// let it run, optionally close, then stop
	run := time.Duration(g.Range(2, 12)) * time.Millisecond
	if doClose {
		time.Sleep(run / 2)
		h.add(hEv{Kind: hClose})
		if kind == hubTell {
			tell.CloseWithError(nil)
		} else {
			ask.CloseWithError(nil)
		}
		time.Sleep(run / 2)
	} else {
		time.Sleep(run)
	}
	stop.Store(true)
	// producers finish their loops; then cancel every context that is still live
	time.Sleep(200 * time.Microsecond)
	cmu.Lock()
	h.add(hEv{Kind: hCancel, Actor: -1})
	for _, cf := range allCancels {
		cf()
	}
	cmu.Unlock()
	// contexts created after this point (by loops that were mid-iteration) are cancelled by a sweeper
	sweep := time.NewTicker(2 * time.Millisecond)
	go func() {
		for {
			select {
			case <-done:
				sweep.Stop()
				return
			case <-sweep.C:
				cmu.Lock()
				for _, cf := range allCancels {
					cf()
				}
				cmu.Unlock()
			}
		}
	}()
	verdict, stacks := gor.WaitParked(done, "main.c13worker", 5*time.Second, time.Second)
	r.Eval(1)
	switch verdict {
	case gor.Parked:
		r.Violate("C13/blocked-after-cancel/"+name, caseID, "a hub call whose context was cancelled is parked inside the library and never returns", map[string]any{"stacks": stacks, "closed": doClose, "history_tail": h.dump(40)})
		return
	case gor.Slow:
		r.Inconclusive("c13 workers slow " + caseID)
		return
	}
	if b := bad.Load(); b != nil {
		r.Violate("C13/altered-or-foreign/"+name, caseID, b.(string), map[string]any{"history_tail": h.dump(60)})
		return
	}
	res := checkRendezvous(h, name, false)
	if res.sig != "" {
		r.Violate(res.sig, caseID, res.desc, map[string]any{"producers": nProd, "receivers": nRecv, "closed": doClose, "history_tail": h.dump(120)})
		return
	}
	if res.concCancel && res.delivered > 0 {
		r.NonTrivial(name + "/" + res.shape[:8])
	}
	r.Sample(map[string]any{"case": caseID, "hub": name, "producers": nProd, "receivers": nRecv, "closed_mid_run": doClose, "callbacks_run": res.delivered, "history_head": headN(h.dump(1<<30), 14)})
	r.Count(name+"_callbacks", int64(res.delivered))
}

func headN(s []string, n int) []string {
	if len(s) > n {
		return s[:n]
	}
	return s
}

func max0(n int) int {
	if n < 0 {
		return 0
	}
	return n
}

//go:noinline
func c13worker(fn func()) { fn() }

// ---- bounded queue ----

type qIn struct {
	Deliver bool
	ID      uint64
}
type qOut struct {
	Accepted bool
	ID       uint64
	Err      bool
}

func c13QueueHistory(r *ev.Run, g *rng.R, caseID string, small bool) {
	capQ := g.Range(1, 6)
	mtu := 64
	q := swarmutil.NewQueue[memAddr](capQ, mtu)
	h := &history{}
	armHooks(g, []uint16{verifhook.QueueDeliverMid, verifhook.QueueReceiveAfterFn})
	defer verifhook.DisarmAll()
	nProd, nRecv := g.Range(1, 6), g.Range(1, 6)
	perProd := g.Range(5, 60)
	if small {
		nProd, nRecv, perProd = 2, 2, 4
	}
	var stop atomic.Bool
	var msgID atomic.Uint64
	var bad atomic.Value
	var wg sync.WaitGroup
	var cmu sync.Mutex
	var cancels []context.CancelFunc
	var pcOps []porcupine.Operation
	var pmu sync.Mutex
	accepted := map[uint64]bool{}
	refused := map[uint64]bool{}
	var amu sync.Mutex
	var purged atomic.Int64
	done := make(chan struct{})
	for p := 0; p < nProd; p++ {
		p := p
		lg := g.Fork()
		wg.Add(1)
		go func() {
			defer wg.Done()
			c13worker(func() {
				for i := 0; i < perProd; i++ {
					id := msgID.Add(1)
					n := lg.Intn(mtu - 8)
					if lg.Chance(1, 15) {
						n = mtu // exceeds the mtu together with the id: must be refused
					}
					payload := c13Payload(id, n)
					orig := append([]byte{}, payload...)
					call := h.add(hEv{Kind: hDeliverCall, Actor: p, Msg: id})
					var ok bool
					if lg.Bool() {
						ok = q.Deliver(p2p.Message[memAddr]{Src: memAddr{N: int(id)}, Dst: memAddr{N: 7}, Payload: payload})
					} else {
						k := lg.Intn(len(payload) + 1)
						ok = q.DeliverVec(memAddr{N: int(id)}, memAddr{N: 7}, p2p.IOVec{payload[:k], payload[k:]})
						if len(payload) > mtu && ok {
							// DeliverVec has no size check of its own in the pinned tree; sizes are the caller's business (vswarm checks). Not judged.
							ok = true
						}
					}
					nacc := 0
					if ok {
						nacc = 1
					}
					ret := h.add(hEv{Kind: hDeliverRet, Actor: p, Msg: id, N: nacc})
					if string(orig) != string(payload) {
						bad.CompareAndSwap(nil, "Queue.Deliver modified the caller's buffer")
					}
					amu.Lock()
					if ok {
						accepted[id] = true
					} else {
						refused[id] = true
					}
					amu.Unlock()
					// the caller may overwrite its buffer as soon as Deliver returns
					for j := range payload {
						payload[j] = 0xEE
					}
					pmu.Lock()
					pcOps = append(pcOps, porcupine.Operation{ClientId: p, Input: qIn{true, id}, Call: call, Output: qOut{Accepted: ok}, Return: ret})
					pmu.Unlock()
					if lg.Chance(1, 40) {
						n := q.Purge()
						purged.Add(int64(n))
						h.add(hEv{Kind: hPurge, Actor: p, N: n})
					}
				}
			})
		}()
	}
	var rwg sync.WaitGroup
	for c := 0; c < nRecv; c++ {
		c := 100 + c
		lg := g.Fork()
		rwg.Add(1)
		wg.Add(1)
		go func() {
			defer wg.Done()
			defer rwg.Done()
			c13worker(func() {
				for !stop.Load() {
					callN := h.newCall()
					var ctx context.Context
					var cf context.CancelFunc
					switch lg.Intn(5) {
					case 0:
						ctx, cf = context.WithTimeout(context.Background(), time.Duration(lg.Intn(500))*time.Microsecond)
					case 1:
						ctx, cf = context.WithCancel(context.Background())
						cf()
					default:
						ctx, cf = context.WithCancel(context.Background())
					}
					cmu.Lock()
					cancels = append(cancels, cf)
					cmu.Unlock()
					call := h.add(hEv{Kind: hRecvCall, Actor: c, Call: callN})
					var got uint64
					err := q.Receive(ctx, func(m p2p.Message[memAddr]) {
						id, ok := c13PayloadOK(m.Payload)
						got = id
						h.add(hEv{Kind: hCbEnter, Actor: c, Call: callN, Msg: id})
						if !ok || m.Src.N != int(id) || m.Dst.N != 7 {
							bad.CompareAndSwap(nil, fmt.Sprintf("queue callback saw an altered message: id=%d src=%d dst=%d payload-intact=%v len=%d", id, m.Src.N, m.Dst.N, ok, len(m.Payload)))
						}
						if lg.Chance(1, 3) {
							time.Sleep(time.Duration(lg.Intn(100)) * time.Microsecond)
						}
						// the callback owns the buffer: scribble
						for j := range m.Payload {
							m.Payload[j] = 0xDD
						}
						h.add(hEv{Kind: hCbExit, Actor: c, Call: callN, Msg: id})
					})
					ret := h.add(hEv{Kind: hRecvRet, Actor: c, Call: callN, Err: classifyErr(err, ctx), Msg: got})
					if err == nil {
						pmu.Lock()
						pcOps = append(pcOps, porcupine.Operation{ClientId: c, Input: qIn{false, 0}, Call: call, Output: qOut{ID: got}, Return: ret})
						pmu.Unlock()
					}
					if classifyErr(err, ctx) == "closed" {
						return
					}
				}
			})
		}()
	}
	go func() { wg.Wait(); close(done) }()
	time.Sleep(time.Duration(g.Range(1, 8)) * time.Millisecond)
	stop.Store(true)
	cmu.Lock()
	h.add(hEv{Kind: hCancel, Actor: -1})
	for _, cf := range cancels {
		cf()
	}
	cmu.Unlock()
	sweep := time.NewTicker(2 * time.Millisecond)
	go func() {
		for {
			select {
			case <-done:
				sweep.Stop()
				return
			case <-sweep.C:
				cmu.Lock()
				for _, cf := range cancels {
					cf()
				}
				cmu.Unlock()
			}
		}
	}()
	verdict, stacks := gor.WaitParked(done, "main.c13worker", 5*time.Second, time.Second)
	r.Eval(1)
	if verdict == gor.Parked {
		// Purge takes no context: a Purge that saw a message which a receiver then took waits for the next message. That is not
		// a cancelled call and not C13's subject. Such producers are released with filler messages and the case is not judged.
		onlyPurge := true
		for _, blk := range strings.Split(stacks, "\n\n") {
			if strings.TrimSpace(blk) != "" && !strings.Contains(blk, ".Purge(") {
				onlyPurge = false
			}
		}
		if !onlyPurge {
			r.Violate("C13/blocked-after-cancel/queue", caseID, "a queue call whose context was cancelled is parked inside the library", map[string]any{"stacks": stacks})
			return
		}
		r.Count("queue_purge_waiting_for_a_message_a_receiver_took", 1)
		for i := 0; i < 10000; i++ {
			select {
			case <-done:
				i = 10000
			default:
				q.Deliver(p2p.Message[memAddr]{Src: memAddr{N: 0}, Dst: memAddr{N: 7}, Payload: []byte("filler")})
				time.Sleep(200 * time.Microsecond)
			}
		}
		r.Inconclusive("c13 queue: a producer's Purge lost a race with the receivers " + caseID)
		return
	} else if verdict == gor.Slow {
		r.Inconclusive("c13 queue workers slow " + caseID)
		return
	}
	held := q.Len()
	closeDone := make(chan struct{})
	go func() { c13worker(func() { q.Close() }); close(closeDone) }()
	if v, st := gor.WaitParked(closeDone, "main.c13worker", 5*time.Second, time.Second); v == gor.Parked {
		r.Violate("C13/close-blocked/queue", caseID, "Queue.Close is parked although no receiver holds a message", map[string]any{"stacks": st})
		return
	}
	if b := bad.Load(); b != nil {
		r.Violate("C13/altered-or-foreign/queue", caseID, b.(string), map[string]any{"cap": capQ, "history_tail": h.dump(60)})
		return
	}
	res := checkRendezvous(h, "queue", true)
	if res.sig != "" {
		r.Violate(res.sig, caseID, res.desc, map[string]any{"cap": capQ, "history_tail": h.dump(120)})
		return
	}
	// refused messages never surface; surfaced messages were accepted; conservation
	h.mu.Lock()
	surfaced := map[uint64]bool{}
	for _, e := range h.evs {
		if e.Kind == hCbEnter {
			surfaced[e.Msg] = true
		}
	}
	h.mu.Unlock()
	for id := range surfaced {
		if refused[id] {
			r.Violate("C13/refused-message-surfaced/queue", caseID, fmt.Sprintf("message %d was refused by Deliver but later handed to a receiver", id), map[string]any{"history_tail": h.dump(80)})
			return
		}
		if !accepted[id] {
			r.Violate("C13/unknown-message-surfaced/queue", caseID, fmt.Sprintf("message %d was handed to a receiver but never accepted", id), nil)
			return
		}
	}
	if int64(len(accepted)) != int64(len(surfaced))+purged.Load()+int64(held) {
		r.Violate("C13/conservation/queue", caseID, fmt.Sprintf("accepted=%d but received=%d purged=%d held=%d", len(accepted), len(surfaced), purged.Load(), held), map[string]any{"cap": capQ, "history_tail": h.dump(80)})
		return
	}
	if small {
		// porcupine: bag with capacity
		model := porcupine.Model{
			Init: func() interface{} { return "" },
			Step: func(state, input, output interface{}) (bool, interface{}) {
				st := state.(string)
				in, out := input.(qIn), output.(qOut)
				ids := []string{}
				if st != "" {
					ids = strings.Split(st, ",")
				}
				if in.Deliver {
					if !out.Accepted {
						return true, st
					}
					if len(ids) >= capQ {
						return false, st
					}
					ids = append(ids, fmt.Sprint(in.ID))
					sort.Strings(ids)
					return true, strings.Join(ids, ",")
				}
				want := fmt.Sprint(out.ID)
				for i, x := range ids {
					if x == want {
						ids = append(ids[:i], ids[i+1:]...)
						return true, strings.Join(ids, ",")
					}
				}
				return false, st
			},
		}
		if purged.Load() == 0 {
			switch res, _ := porcupine.CheckOperationsVerbose(model, pcOps, 20*time.Second); res {
			case porcupine.Illegal:
				r.Violate("C13/not-linearizable/queue", caseID, "queue history is not linearizable w.r.t. a bag with capacity", map[string]any{"cap": capQ, "history_tail": h.dump(80)})
				return
			case porcupine.Unknown:
				r.Inconclusive("porcupine timeout " + caseID)
			default:
				r.Count("queue_linearizable_histories", 1)
			}
		}
	}
	if len(surfaced) > 0 {
		r.NonTrivial("queue/" + res.shape[:8])
	}
	r.Count("queue_callbacks", int64(len(surfaced)))
}

// ---- cancellation of swarm-level Receive (udpswarm, vswarm) ----

// c13ManyParkedCancel: several receivers are parked on one idle swarm, each with its own context; they are cancelled one by one
// (in a seeded order) and each must return its context's error promptly while the others stay parked: a receiver's
// cancellation must not depend on another receiver getting a message or giving up.
func c13ManyParkedCancel(r *ev.Run, g *rng.R, caseID string, which string) {
	var recv func(ctx context.Context) error
	var closer func()
	switch which {
	case "udp":
		s, err := udpswarm.New("127.0.0.1:0")
		if err != nil {
			r.Inconclusive("udp listen: " + err.Error())
			return
		}
		recv = func(ctx context.Context) error { return s.Receive(ctx, func(p2p.Message[udpswarm.Addr]) {}) }
		closer = func() { s.Close() }
	default:
		realm := memswarm.NewRealm()
		s := realm.NewSwarm()
		recv = func(ctx context.Context) error { return s.Receive(ctx, func(p2p.Message[memAddr]) {}) }
		closer = func() { s.Close() }
	}
	defer closer()
	const R = 4
	type rc struct {
		cf   context.CancelFunc
		done chan struct{}
		err  error
	}
	rs := make([]*rc, R)
	for i := range rs {
		ctx, cf := context.WithCancel(context.Background())
		x := &rc{cf: cf, done: make(chan struct{})}
		rs[i] = x
		go func() { c13worker(func() { x.err = recv(ctx) }); close(x.done) }()
	}
	time.Sleep(time.Duration(1+g.Intn(3)) * time.Millisecond) // let them park
	r.Eval(1)
	for _, i := range g.Perm(R) {
		rs[i].cf()
		select {
		case <-rs[i].done:
		case <-time.After(3 * time.Second):
			// still there: parked (in the library) or just slow?
			parked := gor.ParkedIDs("main.c13worker")
			time.Sleep(time.Second)
			select {
			case <-rs[i].done:
				r.Inconclusive("c13 many-parked: slow " + caseID)
				return
			default:
			}
			if len(parked) > 0 && len(gor.ParkedIDs("main.c13worker")) > 0 {
				r.Violate("C13/blocked-after-cancel/"+which+"swarm/other-receivers-parked", caseID, "a Receive whose context was cancelled does not return while other receivers are parked on the same swarm", map[string]any{"receivers": R, "cancelled_index": i})
			} else {
				r.Inconclusive("c13 many-parked: not parked " + caseID)
			}
			for _, x := range rs {
				x.cf()
			}
			return
		}
		if rs[i].err == nil || !errors.Is(rs[i].err, context.Canceled) {
			r.Violate("C13/wrong-error-after-cancel/"+which+"swarm", caseID, fmt.Sprintf("Receive with a cancelled context returned %v instead of the context's error", rs[i].err), map[string]any{"receivers": R})
			for _, x := range rs {
				x.cf()
			}
			return
		}
	}
	r.NonTrivial("many-parked-cancel/" + which)
}

func c13SwarmCancel(r *ev.Run, g *rng.R, caseID string, which string, pre bool) {
	var recv func(ctx context.Context) error
	var closer func()
	switch which {
	case "udp":
		s, err := udpswarm.New("127.0.0.1:0")
		if err != nil {
			r.Inconclusive("udp listen: " + err.Error())
			return
		}
		recv = func(ctx context.Context) error { return s.Receive(ctx, func(p2p.Message[udpswarm.Addr]) {}) }
		closer = func() { s.Close() }
	default:
		realm := memswarm.NewRealm()
		s := realm.NewSwarm()
		recv = func(ctx context.Context) error { return s.Receive(ctx, func(p2p.Message[memAddr]) {}) }
		closer = func() { s.Close() }
	}
	ctx, cf := context.WithCancel(context.Background())
	if pre {
		cf()
	} else {
		time.AfterFunc(time.Duration(g.Intn(2000))*time.Microsecond, cf)
	}
	done := make(chan struct{})
	var err error
	go func() { c13worker(func() { err = recv(ctx) }); close(done) }()
	v, stacks := gor.WaitParked(done, "main.c13worker", 3*time.Second, time.Second)
	r.Eval(1)
	shape := fmt.Sprintf("swarm-cancel/%s/pre=%v", which, pre)
	switch v {
	case gor.Parked:
		r.Violate("C13/blocked-after-cancel/"+which+"swarm", caseID, "Receive with a cancelled context is parked and does not return", map[string]any{"pre_cancelled": pre, "stacks": stacks})
		closer()
		<-done
		return
	case gor.Slow:
		r.Inconclusive(shape)
		closer()
		return
	}
	cf()
	closer()
	if err == nil || !(errors.Is(err, context.Canceled)) {
		r.Violate("C13/wrong-error-after-cancel/"+which+"swarm", caseID, fmt.Sprintf("Receive with a cancelled context returned %v instead of the context's error", err), map[string]any{"pre_cancelled": pre})
		return
	}
	r.NonTrivial(shape)
}

// c13ChurnNoLoss: several receivers on one swarm keep calling Receive with contexts that are cancelled at random moments and
// call again at once; a sender on the same (loss-free: loopback / in-memory) transport tells numbered messages one at a time.
// Every message must reach exactly one callback: a message may not vanish because the receiver that picked it up had just
// been cancelled, and may not be handed out twice.
func c13ChurnNoLoss(r *ev.Run, g *rng.R, caseID, which string) {
	var recv func(ctx context.Context, fn func([]byte)) error
	var tell func(ctx context.Context, b []byte) error
	var closer func()
	switch which {
	case "udp":
		d, err := udpswarm.New("127.0.0.1:0")
		if err != nil {
			r.Inconclusive("udp listen: " + err.Error())
			return
		}
		s, err := udpswarm.New("127.0.0.1:0")
		if err != nil {
			d.Close()
			r.Inconclusive("udp listen: " + err.Error())
			return
		}
		dst := d.LocalAddrs()[0]
		recv = func(ctx context.Context, fn func([]byte)) error {
			return d.Receive(ctx, func(m p2p.Message[udpswarm.Addr]) { fn(m.Payload) })
		}
		tell = func(ctx context.Context, b []byte) error { return s.Tell(ctx, dst, p2p.IOVec{b}) }
		closer = func() { d.Close(); s.Close() }
	default:
		realm := memswarm.NewRealm(memswarm.WithQueueLen(64))
		d, s := realm.NewSwarm(), realm.NewSwarm()
		dst := d.LocalAddrs()[0]
		recv = func(ctx context.Context, fn func([]byte)) error {
			return d.Receive(ctx, func(m p2p.Message[memAddr]) { fn(m.Payload) })
		}
		tell = func(ctx context.Context, b []byte) error { return s.Tell(ctx, dst, p2p.IOVec{b}) }
		closer = func() { d.Close(); s.Close() }
	}
	defer closer()
	const R = 4
	N := pick(r, 150, 1500)
	var mu sync.Mutex
	seen := map[uint32]int{}
	var got atomic.Int64
	stop := make(chan struct{})
	var wg sync.WaitGroup
	for w := 0; w < R; w++ {
		lg := g.Fork()
		wg.Add(1)
		go func() {
			defer wg.Done()
			for {
				select {
				case <-stop:
					return
				default:
				}
				ctx, cf := context.WithCancel(context.Background())
				tm := time.AfterFunc(time.Duration(lg.Intn(4000))*time.Microsecond, cf)
				recv(ctx, func(p []byte) {
					if len(p) == 8 && string(p[:4]) == "C13n" {
						id := binary.BigEndian.Uint32(p[4:])
						mu.Lock()
						seen[id]++
						mu.Unlock()
						got.Add(1)
					}
				})
				tm.Stop()
				cf()
			}
		}()
	}
	sent := 0
	bg := context.Background()
	for i := 0; i < N; i++ {
		b := make([]byte, 8)
		copy(b, "C13n")
		binary.BigEndian.PutUint32(b[4:], uint32(i))
		before := got.Load()
		if tell(bg, b) != nil {
			continue
		}
		sent++
		// one at a time: wait (briefly) until somebody has it, so that nothing is ever dropped for want of buffer space
		for w := 0; w < 300 && got.Load() == before; w++ {
			time.Sleep(100 * time.Microsecond)
		}
	}
	// drain: until everything sent has been seen or nothing has arrived for a while
	last, quiet := got.Load(), 0
	for quiet < 200 && got.Load() < int64(sent) {
		time.Sleep(5 * time.Millisecond)
		if cur := got.Load(); cur == last {
			quiet++
		} else {
			last, quiet = cur, 0
		}
	}
	close(stop)
	closer()
	wg.Wait()
	r.Eval(int64(sent))
	mu.Lock()
	defer mu.Unlock()
	missing, twice := 0, 0
	for i := 0; i < N; i++ {
		switch c := seen[uint32(i)]; {
		case c == 0:
			missing++
		case c > 1:
			twice++
		}
	}
	missing -= N - sent
	det := map[string]any{"transport": which, "sent": sent, "callbacks": got.Load(), "missing": missing, "handed_out_twice": twice, "receivers": R}
	if twice > 0 {
		r.Violate("C13/handed-to-two-receivers/"+which+"swarm", caseID, "a message was handed to more than one receiver callback", det)
		return
	}
	switch {
	case missing >= 2:
		r.Violate("C13/lost-under-cancellation/"+which+"swarm", caseID, fmt.Sprintf("%d of %d messages sent one at a time over a loss-free transport never reached a callback while receivers' contexts were being cancelled", missing, sent), det)
	case missing == 1:
		r.Inconclusive("c13 churn: a single message missing on " + which)
	default:
		r.NonTrivial("churn-no-loss/" + which)
	}
	r.Count("churn_messages_"+which, int64(sent))
}

func runC13(r *ev.Run) {
	r.Rule = "boundary-recorded histories (one atomic stamp counter; call stamped before invoking, return after returning) of TellHub, AskHub and Queue under 1-8 producers/receivers, per-call contexts (live, cancelled soon, pre-cancelled, deadline), optional close, and seeded yields/sleeps at hub hook points; checked offline against the rendezvous trace specification (exactly-one callback, success only after the callback finished, error only if no callback saw it, overlap, conservation, own-context errors), queue conservation and porcupine bag-with-capacity model; cancelled calls must not stay parked (two goroutine snapshots); churn family: 4 receivers on one udp / in-memory swarm re-calling Receive with contexts cancelled every 0-4 ms while numbered messages are told one at a time: each must reach exactly one callback. non-trivial = a cancel/close concurrent with a Deliver and >=1 rendezvous; distinct = history-shape hash"
	n := pick(r, 120, 4000)
	g := rng.New(r.Seed, "C13", fmt.Sprint(r.Batch))
	for i := 0; i < n; i++ {
		cg := g.Fork()
		var caseID string
		switch i % 4 {
		case 0:
			caseID = fmt.Sprintf("tellhub-%d-%d", r.Batch, i)
			if r.Want(caseID) {
				c13HubHistory(r, cg, caseID, hubTell)
			}
		case 1:
			caseID = fmt.Sprintf("askhub-%d-%d", r.Batch, i)
			if r.Want(caseID) {
				c13HubHistory(r, cg, caseID, hubAsk)
			}
		case 2:
			caseID = fmt.Sprintf("queue-%d-%d", r.Batch, i)
			if r.Want(caseID) {
				c13QueueHistory(r, cg, caseID, false)
			}
		default:
			caseID = fmt.Sprintf("queue-small-%d-%d", r.Batch, i)
			if r.Want(caseID) {
				c13QueueHistory(r, cg, caseID, true)
			}
		}
	}
	for i := 0; i < pick(r, 2, 10); i++ {
		for _, which := range []string{"udp", "mem"} {
			caseID := fmt.Sprintf("manyparked-%s-%d-%d", which, r.Batch, i)
			if r.Want(caseID) {
				c13ManyParkedCancel(r, g.Fork(), caseID, which)
			}
		}
	}
	for _, which := range []string{"udp", "mem"} {
		caseID := fmt.Sprintf("churn-%s-%d", which, r.Batch)
		if r.Want(caseID) {
			c13ChurnNoLoss(r, g.Fork(), caseID, which)
		}
	}
	for i := 0; i < pick(r, 3, 30); i++ {
		for _, which := range []string{"udp", "mem"} {
			for _, pre := range []bool{true, false} {
				caseID := fmt.Sprintf("swarmcancel-%s-%v-%d-%d", which, pre, r.Batch, i)
				if r.Want(caseID) {
					c13SwarmCancel(r, g.Fork(), caseID, which, pre)
				}
			}
		}
	}
}
