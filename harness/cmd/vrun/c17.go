package main

import (
	"bytes"
	"crypto/ed25519"
	"encoding/asn1"
	"encoding/binary"
	"fmt"
	"math"

	"go.brendoncarroll.net/p2p"
	"go.brendoncarroll.net/p2p/f/x509"
	"go.brendoncarroll.net/p2p/f/x509/oids"
	"go.brendoncarroll.net/p2p/s/p2pkeswarm"
	"go.brendoncarroll.net/p2p/s/quicswarm"

	"verifharness/internal/ev"
	"verifharness/internal/rng"
)

func init() { register("C17", runC17) }

// genOID generates an OID that X.690 and Go's encoding/asn1 can represent in both directions.
func genOID(g *rng.R) []int {
	n := g.Range(2, 9)
	arcs := make([]int, n)
	arcs[0] = g.Intn(3)
	arcVal := func() int {
		switch g.Intn(8) {
		case 0:
			return 0
		case 1:
			return g.Intn(128)
		case 2:
			return 127 + g.Intn(3)
		case 3:
			return 16383 + g.Intn(3)
		case 4:
			return math.MaxInt32 - 80 - g.Intn(3)
		case 5:
			return g.Intn(1 << 21)
		default:
			return g.Intn(math.MaxInt32 - 80)
		}
	}
	if arcs[0] < 2 {
		arcs[1] = g.Intn(40)
	} else {
		arcs[1] = arcVal()
	}
	for i := 2; i < n; i++ {
		arcs[i] = arcVal()
		if arcs[i] > math.MaxInt32-80 {
			arcs[i] = math.MaxInt32 - 80
		}
	}
	// arcs other than the second may go up to MaxInt32
	if n > 2 && g.Chance(1, 10) {
		arcs[2+g.Intn(n-2)] = math.MaxInt32
	}
	return arcs
}

func genKeyData(g *rng.R) []byte {
	var n int
	switch g.Intn(8) {
	case 0:
		n = 0
	case 1:
		n = 1
	case 2:
		n = 32
	case 3:
		n = 126 + g.Intn(4) // DER length form boundary region
	case 4:
		n = 254 + g.Intn(4)
	case 5:
		n = 600
	default:
		n = g.Intn(601)
	}
	d := g.Bytes(n)
	if n > 0 && g.Chance(1, 6) {
		d[0] = 0
	}
	if n > 0 && g.Chance(1, 6) {
		d[n-1] = 0
	}
	return d
}

func lenClass(n int) string {
	switch {
	case n == 0:
		return "0"
	case n == 1:
		return "1"
	case n < 32:
		return "<32"
	case n == 32:
		return "32"
	case n < 128:
		return "<128"
	case n < 256:
		return "<256"
	default:
		return ">=256"
	}
}

func runC17(r *ev.Run) {
	c17Registry(r)
	r.Rule = "generated (OID, key body) pairs and near-miss pairs; generated peer ids and candidate texts; non-trivial = case other than the Ed25519 OID with a 32-byte body / other than a canonical peer-id text; distinct = (oid arc count, first arc, data length class) or (text class)"
	r.Assumptions = []string{
		"OIDs are restricted to what encoding/asn1 round-trips: >=2 arcs, first<=2, second<40 unless first=2, arcs<=2^31-1 (second arc <=2^31-81 when first=2)",
		"fingerprint equality is asserted within a swarm kind only (p2pkeswarm SHAKE256 vs quicswarm SHA3-256 differ by design)",
		"43-char in-alphabet texts with non-canonical trailing bits may be accepted or rejected",
	}
	nKeys := pick(r, 60000, 1500000)
	g := rng.New(r.Seed, "C17", "keys", fmt.Sprint(r.Batch))
	var prev *x509.PublicKey
	for i := 0; i < nKeys; i++ {
		caseID := fmt.Sprintf("key-%d-%d", r.Batch, i)
		cg := g.Fork()
		if !r.Want(caseID) {
			continue
		}
		arcs := genOID(cg)
		data := genKeyData(cg)
		if cg.Chance(1, 16) {
			arcs = []int{1, 3, 101, 112}
		}
		k := x509.PublicKey{Algorithm: oids.New(arcs...), Data: data}
		r.Eval(1)
		wire := x509.MarshalPublicKey(nil, &k)
		if len(wire) == 0 {
			r.Violate("C17/marshal-empty", caseID, "MarshalPublicKey produced no bytes for a representable key", map[string]any{"oid": arcs, "data_len": len(data)})
			continue
		}
		// appending semantics
		pre := []byte("prefix")
		wire2 := x509.MarshalPublicKey(append([]byte{}, pre...), &k)
		if !bytes.Equal(wire2[:len(pre)], pre) || !bytes.Equal(wire2[len(pre):], wire) {
			r.Violate("C17/marshal-append", caseID, "MarshalPublicKey(out, k) is not out || Marshal(k)", map[string]any{"oid": arcs})
		}
		k2, err := x509.ParsePublicKey(wire)
		if err != nil {
			r.Violate("C17/roundtrip-parse-error", caseID, "ParsePublicKey(MarshalPublicKey(k)) failed: "+err.Error(), map[string]any{"oid": arcs, "data_len": len(data), "wire": fmt.Sprintf("%x", wire)})
			continue
		}
		if k2.Algorithm != k.Algorithm || !bytes.Equal(k2.Data, k.Data) || !x509.EqualPublicKeys(&k, &k2) || !x509.EqualPublicKeys(&k2, &k) {
			r.Violate("C17/roundtrip-unequal", caseID, "ParsePublicKey(MarshalPublicKey(k)) != k", map[string]any{"oid": arcs, "oid_back": k2.Algorithm.String(), "data": fmt.Sprintf("%x", data), "data_back": fmt.Sprintf("%x", k2.Data)})
			continue
		}
		if !bytes.Equal(x509.MarshalPublicKey(nil, &k2), wire) {
			r.Violate("C17/remarshal-differs", caseID, "Marshal(Parse(Marshal(k))) != Marshal(k)", map[string]any{"oid": arcs})
		}
		// trailing data must be rejected (one canonical encoding)
		if _, err := x509.ParsePublicKey(append(append([]byte{}, wire...), byte(cg.Intn(256)))); err == nil {
			r.Violate("C17/trailing-data-accepted", caseID, "ParsePublicKey accepted an encoding followed by an extra byte", map[string]any{"oid": arcs})
		}
		// fingerprints: function of the key alone
		fpA, fpB := p2pkeswarm.DefaultFingerprinter(&k), p2pkeswarm.DefaultFingerprinter(&k2)
		fqA, fqB := quicswarm.DefaultFingerprinter(k), quicswarm.DefaultFingerprinter(k2)
		if fpA != fpB || fqA != fqB || fpA != p2pkeswarm.DefaultFingerprinter(&k) || fqA != quicswarm.DefaultFingerprinter(k) {
			r.Violate("C17/fingerprint-not-function-of-key", caseID, "fingerprint differs between equal keys or across calls", map[string]any{"oid": arcs})
		}
		// non-canonical SPKI (NULL parameters) parses to the same key and fingerprint
		if nc, ok := spkiWithNullParams(arcs, data); ok {
			k3, err := x509.ParsePublicKey(nc)
			if err == nil {
				r.Count("noncanonical_spki_accepted", 1)
				if !x509.EqualPublicKeys(&k, &k3) || p2pkeswarm.DefaultFingerprinter(&k3) != fpA || quicswarm.DefaultFingerprinter(k3) != fqA {
					r.Violate("C17/fingerprint-depends-on-wire-form", caseID, "key parsed from SPKI with NULL parameters has a different identity", map[string]any{"oid": arcs})
				}
			} else {
				r.Count("noncanonical_spki_rejected", 1)
			}
		}
		// pair laws against the previous key and engineered near-misses
		pairs := []*x509.PublicKey{}
		if prev != nil {
			pairs = append(pairs, prev)
		}
		pairs = append(pairs, nearMisses(cg, &k)...)
		pairs = append(pairs, aliasedVariants(&k)...)
		for pi, o := range pairs {
			eq := x509.EqualPublicKeys(&k, o)
			eq2 := x509.EqualPublicKeys(o, &k)
			wo := x509.MarshalPublicKey(nil, o)
			enc := bytes.Equal(wire, wo)
			r.Eval(1)
			if eq != eq2 {
				r.Violate("C17/equal-asymmetric", caseID, "EqualPublicKeys(a,b) != EqualPublicKeys(b,a)", map[string]any{"pair": pi, "a": k.Algorithm.String(), "b": o.Algorithm.String()})
			}
			if eq != enc {
				r.Violate("C17/equal-vs-encoding", caseID, fmt.Sprintf("EqualPublicKeys=%v but encodings equal=%v", eq, enc), map[string]any{"pair": pi, "a_oid": k.Algorithm.String(), "b_oid": o.Algorithm.String(), "a_data": fmt.Sprintf("%x", k.Data), "b_data": fmt.Sprintf("%x", o.Data)})
			}
			fe := p2pkeswarm.DefaultFingerprinter(o) == fpA
			fe2 := quicswarm.DefaultFingerprinter(*o) == fqA
			if fe != eq || fe2 != eq {
				r.Violate("C17/fingerprint-vs-equality", caseID, fmt.Sprintf("keys equal=%v but fingerprints equal=%v/%v", eq, fe, fe2), map[string]any{"pair": pi})
			}
		}
		kk := k
		prev = &kk
		if !(len(arcs) == 4 && arcs[2] == 101 && len(data) == 32) {
			r.NonTrivial(fmt.Sprintf("key/arcs=%d/first=%d/len=%s", len(arcs), arcs[0], lenClass(len(data))))
		}
		if i < 2 {
			r.Sample(map[string]any{"kind": "key", "oid": arcs, "data_len": len(data), "wire_len": len(wire), "fp_p2pke": fpA.String()})
		}
	}
	runC17PeerIDs(r)
	runC17InSwarm(r)
}

// spkiWithNullParams builds SEQUENCE{ SEQUENCE{ OID, NULL }, BIT STRING } by hand.
func spkiWithNullParams(arcs []int, data []byte) ([]byte, bool) {
	oidDER, err := asn1.Marshal(asn1.ObjectIdentifier(arcs))
	if err != nil {
		return nil, false
	}
	alg := derSeq(append(append([]byte{}, oidDER...), 0x05, 0x00))
	bs, err := asn1.Marshal(asn1.BitString{Bytes: data, BitLength: 8 * len(data)})
	if err != nil {
		return nil, false
	}
	return derSeq(append(alg, bs...)), true
}

func derSeq(body []byte) []byte {
	out := []byte{0x30}
	n := len(body)
	switch {
	case n < 128:
		out = append(out, byte(n))
	case n < 256:
		out = append(out, 0x81, byte(n))
	default:
		out = append(out, 0x82, byte(n>>8), byte(n))
	}
	return append(out, body...)
}

func nearMisses(g *rng.R, k *x509.PublicKey) []*x509.PublicKey {
	var out []*x509.PublicKey
	cp := func(d []byte) []byte { return append([]byte{}, d...) }
	// identical copy
	out = append(out, &x509.PublicKey{Algorithm: k.Algorithm, Data: cp(k.Data)})
	// same data, different OID
	arcs := k.Algorithm.ASN1()
	a2 := append([]int{}, arcs...)
	a2[len(a2)-1] ^= 1
	if len(a2) == 2 && a2[0] < 2 && a2[1] >= 40 {
		a2[1] = 0
	}
	out = append(out, &x509.PublicKey{Algorithm: oids.New(a2...), Data: cp(k.Data)})
	// OID that is a prefix / extension
	out = append(out, &x509.PublicKey{Algorithm: oids.New(append(append([]int{}, arcs...), 0)...), Data: cp(k.Data)})
	// prefix data, extended data, one bit flipped, nil vs empty
	if len(k.Data) > 0 {
		out = append(out, &x509.PublicKey{Algorithm: k.Algorithm, Data: cp(k.Data[:len(k.Data)-1])})
		d := cp(k.Data)
		d[g.Intn(len(d))] ^= 1 << uint(g.Intn(8))
		out = append(out, &x509.PublicKey{Algorithm: k.Algorithm, Data: d})
	} else {
		out = append(out, &x509.PublicKey{Algorithm: k.Algorithm, Data: nil})
		out = append(out, &x509.PublicKey{Algorithm: k.Algorithm, Data: []byte{}})
	}
	out = append(out, &x509.PublicKey{Algorithm: k.Algorithm, Data: append(cp(k.Data), 0)})
	return out
}

func runC17PeerIDs(r *ev.Run) {
	const alpha = p2p.Base64Alphabet
	inAlpha := [256]bool{}
	for i := 0; i < len(alpha); i++ {
		inAlpha[alpha[i]] = true
	}
	n := pick(r, 150000, 3000000)
	g := rng.New(r.Seed, "C17", "peerid", fmt.Sprint(r.Batch))
	var prevID p2p.PeerID
	var prevText []byte
	for i := 0; i < n; i++ {
		caseID := fmt.Sprintf("pid-%d-%d", r.Batch, i)
		cg := g.Fork()
		if !r.Want(caseID) {
			continue
		}
		r.Eval(1)
		var id p2p.PeerID
		switch cg.Intn(6) {
		case 0: // adjacent to the previous id
			id = prevID
			for j := 31; j >= 0; j-- {
				id[j]++
				if id[j] != 0 {
					break
				}
			}
		case 1:
			for j := range id {
				id[j] = 0xff
			}
			id[cg.Intn(32)] = byte(cg.Intn(256))
		case 2:
			id[cg.Intn(32)] = byte(cg.Intn(256))
		case 3: // shares a prefix with prev
			id = prevID
			k := cg.Intn(32)
			cg.Fill(id[k:])
		default:
			cg.Fill(id[:])
		}
		text, err := id.MarshalText()
		if err != nil || len(text) != 43 {
			r.Violate("C17/peerid-marshal", caseID, fmt.Sprintf("MarshalText gave %d bytes, err=%v", len(text), err), nil)
			continue
		}
		for _, c := range text {
			if !inAlpha[c] {
				r.Violate("C17/peerid-marshal-alphabet", caseID, "MarshalText produced a symbol outside the documented alphabet", map[string]any{"text": string(text)})
			}
		}
		if id.String() != string(text) || id.Base64String() != string(text) {
			r.Violate("C17/peerid-string", caseID, "String()/Base64String() disagree with MarshalText", nil)
		}
		var back p2p.PeerID
		if err := back.UnmarshalText(text); err != nil || back != id {
			r.Violate("C17/peerid-roundtrip", caseID, fmt.Sprintf("UnmarshalText(MarshalText(id)) != id (err=%v)", err), map[string]any{"id": fmt.Sprintf("%x", id[:]), "text": string(text)})
		}
		if prevText != nil {
			ct := sign(bytes.Compare(prevText, text))
			ci := sign(bytes.Compare(prevID[:], id[:]))
			if ct != ci || sign(prevID.Compare(id)) != ci || prevID.Lt(id) != (ci < 0) {
				r.Violate("C17/peerid-order", caseID, "text order and id order disagree", map[string]any{"a": fmt.Sprintf("%x", prevID[:]), "b": fmt.Sprintf("%x", id[:]), "ta": string(prevText), "tb": string(text)})
			}
		}
		// hostile candidate texts derived from this one
		cand := append([]byte{}, text...)
		class := ""
		switch cg.Intn(7) {
		case 0: // wrong length: shorter
			cand = cand[:cg.Intn(43)]
			class = "short"
		case 1: // wrong length: longer
			extra := 1 + cg.Intn(5)
			for j := 0; j < extra; j++ {
				cand = append(cand, alpha[cg.Intn(64)])
			}
			class = "long"
		case 2, 3: // right length, one symbol outside the alphabet
			pos := cg.Intn(43)
			var c byte
			for {
				c = byte(cg.Intn(256))
				if !inAlpha[c] {
					break
				}
			}
			if cg.Chance(1, 3) {
				c = rng.Pick(cg, []byte{'+', '/', '=', '.', ' ', '\n', 0, '~', '@'})
			}
			cand[pos] = c
			class = fmt.Sprintf("bad-symbol@%s", posClass(pos))
		case 4: // padded form
			cand = append(cand, '=')
			class = "padded"
		case 5: // in-alphabet random text of the right length
			for j := range cand {
				cand[j] = alpha[cg.Intn(64)]
			}
			class = "random-in-alphabet"
		default: // change trailing symbol only (non-canonical trailing bits)
			cand[42] = alpha[cg.Intn(64)]
			class = "trailing-symbol"
		}
		var got p2p.PeerID
		// pre-fill with a recognisable pattern so "left untouched" is visible
		for j := range got {
			got[j] = 0xA5
		}
		err = got.UnmarshalText(cand)
		allIn := len(cand) == 43
		for _, c := range cand {
			if !inAlpha[c] {
				allIn = false
			}
		}
		switch {
		case len(cand) != 43:
			if err == nil {
				r.Violate("C17/peerid-wrong-length-accepted", caseID, fmt.Sprintf("text of length %d accepted", len(cand)), map[string]any{"text": string(cand)})
			}
		case !allIn:
			if err == nil {
				r.Violate("C17/peerid-invalid-text-accepted", caseID, "43-char text with a symbol outside the alphabet was accepted and yielded an identity", map[string]any{"text": fmt.Sprintf("%q", cand), "yielded": fmt.Sprintf("%x", got[:])})
			}
		default:
			if err == nil {
				canon, _ := got.MarshalText()
				if !bytes.Equal(canon[:42], cand[:42]) {
					r.Violate("C17/peerid-decode-wrong", caseID, "accepted text decodes to an id whose canonical text differs in the first 42 symbols", map[string]any{"text": string(cand), "canon": string(canon)})
				}
			}
		}
		r.NonTrivial("pid/" + class)
		if i < 2 {
			r.Sample(map[string]any{"kind": "peerid", "id": fmt.Sprintf("%x", id[:]), "text": string(text), "candidate": fmt.Sprintf("%q", cand), "class": class, "accepted": err == nil})
		}
		prevID, prevText = id, text
	}
}

func posClass(p int) string {
	switch {
	case p == 0:
		return "first"
	case p == 42:
		return "last"
	case p%4 == 0:
		return "q0"
	case p%4 == 1:
		return "q1"
	case p%4 == 2:
		return "q2"
	default:
		return "q3"
	}
}

func sign(x int) int {
	switch {
	case x < 0:
		return -1
	case x > 0:
		return 1
	}
	return 0
}

// aliasedVariants: keys whose body shares memory with k's (a prefix, an extension into spare capacity, a window one byte in,
// the very same slice): equality must still be decided by content and length, not by where the bytes live.
func aliasedVariants(k *x509.PublicKey) []*x509.PublicKey {
	var out []*x509.PublicKey
	mk := func(d []byte) { out = append(out, &x509.PublicKey{Algorithm: k.Algorithm, Data: d}) }
	mk(k.Data) // same slice: equal
	if len(k.Data) > 1 {
		mk(k.Data[:len(k.Data)-1])
		mk(k.Data[1:])
	}
	// a copy with spare capacity, and its extension by one byte
	big := make([]byte, len(k.Data), len(k.Data)+4)
	copy(big, k.Data)
	ext := big[:len(big)+1]
	ext[len(ext)-1] = 0x01
	out = append(out, &x509.PublicKey{Algorithm: k.Algorithm, Data: big})
	// pair (big, ext) is checked through the k-vs-ext and k-vs-big pairs only if k aliases them, so compare them directly too
	out = append(out, &x509.PublicKey{Algorithm: k.Algorithm, Data: ext})
	return out
}

// c17Registry: keys obtained through one Registry (PublicFromPrivate / StoreVerifier+LoadVerifier paths) must stay what they were:
// the encoding and fingerprints recorded when a key was produced are compared again after many other keys have been produced
// through the same Registry, and distinct keys must stay unequal.
func c17Registry(r *ev.Run) {
	caseID := "registry-keys"
	if r.Batch != 0 || !r.Want(caseID) {
		return
	}
	reg := x509.DefaultRegistry()
	type rec struct {
		pub  x509.PublicKey
		wire []byte
		fp   p2p.PeerID
	}
	var recs []rec
	n := pick(r, 40, 400)
	for i := 0; i < n; i++ {
		seed := make([]byte, ed25519.SeedSize)
		binary.BigEndian.PutUint64(seed, uint64(i)+0xC17)
		std := ed25519.NewKeyFromSeed(seed)
		algo, signer := x509.SignerFromStandard(std)
		priv, err := reg.StoreSigner(algo, signer)
		if err != nil {
			r.Inconclusive("c17 registry: StoreSigner: " + err.Error())
			return
		}
		pub, err := reg.PublicFromPrivate(&priv)
		if err != nil {
			r.Inconclusive("c17 registry: PublicFromPrivate: " + err.Error())
			return
		}
		r.Eval(1)
		want := std.Public().(ed25519.PublicKey)
		if !bytes.Equal(pub.Data, want) {
			r.Violate("C17/registry-wrong-key", caseID, "PublicFromPrivate returned a key body that is not the public half of the private key", map[string]any{"i": i})
			return
		}
		recs = append(recs, rec{pub, x509.MarshalPublicKey(nil, &pub), p2pkeswarm.DefaultFingerprinter(&pub)})
		// every key produced so far is still what it was
		for j := range recs {
			o := &recs[j]
			if !bytes.Equal(x509.MarshalPublicKey(nil, &o.pub), o.wire) || p2pkeswarm.DefaultFingerprinter(&o.pub) != o.fp {
				r.Violate("C17/key-changed-after-later-registry-call", caseID, fmt.Sprintf("key %d, produced through the registry earlier, has a different encoding/fingerprint after key %d was produced through the same registry", j, i), map[string]any{"then": fmt.Sprintf("%x", o.wire), "now": fmt.Sprintf("%x", x509.MarshalPublicKey(nil, &o.pub))})
				return
			}
			if j != i && x509.EqualPublicKeys(&o.pub, &recs[i].pub) {
				r.Violate("C17/distinct-keys-equal", caseID, fmt.Sprintf("keys %d and %d are different keys but compare equal", j, i), nil)
				return
			}
		}
	}
	r.NonTrivial("registry/keys-stay-put")
}
