package main

import (
	"bytes"
	"fmt"
	"time"

	"go.brendoncarroll.net/p2p"
	"go.brendoncarroll.net/p2p/p/kademlia"

	"verifharness/internal/ev"
	"verifharness/internal/rng"
)

// c18DHTNode: the same map property through DHTNode's own use of the caches (peer table and data store), kept below capacity so
// that nothing may disappear except by removal: a lookup (GetPeer, ListNodeInfos, HandleFindNode, Get, HandleGet) returns the
// latest value stored under the key. Peers are re-added with different info (longer, shorter, empty, nil), values are re-put;
// the caller overwrites its key and info buffers after every call.
func c18DHTNode(r *ev.Run, g *rng.R, caseID string) {
	var local p2p.PeerID
	g.Fill(local[:])
	node := kademlia.NewDHTNode(kademlia.DHTNodeParams{LocalID: local, PeerCacheSize: 512, DataCacheSize: 512})
	nIDs := g.Range(3, 24)
	ids := make([]p2p.PeerID, nIDs)
	for i := range ids {
		g.Fill(ids[i][:])
		if i%3 == 1 {
			copy(ids[i][:], local[:g.Intn(30)]) // shares a prefix with the locus: deeper buckets
		}
	}
	keys := make([][]byte, g.Range(2, 12))
	for i := range keys {
		keys[i] = g.Bytes(32)
	}
	type pe struct {
		present bool
		info    []byte
	}
	peers := map[p2p.PeerID]pe{}
	data := map[string][]byte{}
	viol := func(sig, desc string, d map[string]any) {
		r.Violate("C18/dhtnode/"+sig, caseID, desc, d)
	}
	mkInfo := func() []byte {
		switch g.Intn(6) {
		case 0:
			return nil
		case 1:
			return []byte{}
		default:
			return g.Bytes(g.Range(1, 40))
		}
	}
	steps := pick(r, 300, 3000)
	var from p2p.PeerID
	g.Fill(from[:])
	for s := 0; s < steps; s++ {
		r.Eval(1)
		id := ids[g.Intn(len(ids))]
		switch g.Intn(9) {
		case 0, 1, 2:
			info := mkInfo()
			buf := append([]byte(nil), info...)
			node.AddPeer(id, buf)
			for i := range buf {
				buf[i] ^= 0xFF
			}
			peers[id] = pe{true, info}
		case 3:
			// RemovePeer's boolean is not asserted (Cache.Delete returns a non-nil entry for absent keys; the property does not
			// speak about it)
			node.RemovePeer(id)
			peers[id] = pe{}
		case 4:
			info, ok := node.GetPeer(id)
			want := peers[id]
			if ok != want.present || (ok && !bytes.Equal(info, want.info)) {
				viol("stale-or-missing-peer-info", "GetPeer did not return the latest info stored for the peer", map[string]any{"step": s, "present": ok, "want_present": want.present, "got": fmt.Sprintf("%x", info), "want": fmt.Sprintf("%x", want.info)})
				return
			}
		case 5:
			key := g.Bytes(32)
			var infos []kademlia.NodeInfo
			if g.Bool() {
				infos = node.ListNodeInfos(key, 512)
			} else {
				res, err := node.HandleFindNode(from, kademlia.FindNodeReq{Target: id, Limit: 10})
				if err != nil {
					break
				}
				infos = res.Nodes
			}
			for _, ni := range infos {
				want, known := peers[ni.ID]
				if !known || !want.present {
					viol("listed-absent-peer", "a node list contains a peer that was removed or never added", map[string]any{"step": s, "peer": ni.ID.String()})
					return
				}
				if !bytes.Equal(ni.Info, want.info) {
					viol("stale-peer-info-in-list", "a node list carries info that is not the latest stored for that peer", map[string]any{"step": s, "peer": ni.ID.String(), "got": fmt.Sprintf("%x", ni.Info), "want": fmt.Sprintf("%x", want.info)})
					return
				}
			}
		case 6, 7:
			k := keys[g.Intn(len(keys))]
			v := g.Bytes(g.Range(0, 48))
			kb, vb := append([]byte{}, k...), append([]byte{}, v...)
			node.Put(kb, vb, time.Hour)
			for i := range kb {
				kb[i] ^= 0xFF
			}
			// the value slice is stored as given (Cache is generic in its value type): it is not the caller's to overwrite
			_ = vb
			data[string(k)] = v
		default:
			k := keys[g.Intn(len(keys))]
			var got []byte
			if g.Bool() {
				got = node.Get(k)
			} else {
				res, err := node.HandleGet(from, kademlia.GetReq{Key: k})
				if err != nil {
					break
				}
				got = res.Value
			}
			want, ok := data[string(k)]
			if ok != (got != nil) && !(ok && len(want) == 0) {
				viol("data-presence", "Get disagrees with what was stored about whether the key has a value", map[string]any{"step": s, "stored": ok})
				return
			}
			if ok && !bytes.Equal(got, want) {
				viol("stale-data", "Get did not return the latest value stored under the key", map[string]any{"step": s, "got": fmt.Sprintf("%x", got), "want": fmt.Sprintf("%x", want)})
				return
			}
		}
	}
	r.NonTrivial(fmt.Sprintf("dhtnode/ids=%d/keys=%d", nIDs/4, len(keys)/4))
}
