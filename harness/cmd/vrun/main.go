// Command vrun runs one property's monitors in this process and writes a result file.
// It is always started by /verif/check (the driver), one child per batch.
package main

import (
	"flag"
	"fmt"
	"os"
	"sort"

	"verifharness/internal/ev"
)

type propFn func(r *ev.Run)

var props = map[string]propFn{}

func register(id string, fn propFn) { props[id] = fn }

func main() {
	if len(os.Args) < 2 {
		usage()
	}
	id := os.Args[1]
	fs := flag.NewFlagSet("vrun", flag.ExitOnError)
	tier := fs.String("tier", "quick", "quick|thorough")
	seed := fs.Int64("seed", 1, "VERIF_SEED")
	batch := fs.Int("batch", 0, "batch index")
	nbatch := fs.Int("nbatch", 1, "number of batches")
	out := fs.String("out", "", "output directory")
	only := fs.String("only", "", "run only this case id (replay)")
	fs.Parse(os.Args[2:])
	fn, ok := props[id]
	if !ok {
		usage()
	}
	if *out != "" {
		os.MkdirAll(*out, 0o755)
	}
	r := ev.NewRun(id, *tier, *seed, *batch, *nbatch, *out)
	r.Only = *only
	fn(r)
	if err := r.Write(); err != nil {
		fmt.Fprintln(os.Stderr, "vrun: writing result:", err)
		os.Exit(3)
	}
	fmt.Fprintf(os.Stderr, "vrun %s batch %d/%d: evaluations=%d distinct=%d violations=%d\n", id, *batch, *nbatch, 0, r.Distinct(), r.NumViolations())
}

func usage() {
	ids := make([]string, 0, len(props))
	for k := range props {
		ids = append(ids, k)
	}
	sort.Strings(ids)
	fmt.Fprintln(os.Stderr, "usage: vrun <property> [-tier quick|thorough] [-seed n] [-batch i -nbatch n] [-out dir] [-only case]; properties:", ids)
	os.Exit(3)
}

func isThorough(r *ev.Run) bool { return r.Tier == "thorough" }

// pick returns q for the quick tier and t for the thorough tier.
func pick(r *ev.Run, q, t int) int {
	if isThorough(r) {
		return t
	}
	return q
}
