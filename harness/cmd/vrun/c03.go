package main

import (
	"bytes"
	"fmt"
	"google.golang.org/protobuf/proto"
	"time"

	"go.brendoncarroll.net/p2p/f/x509"
	"go.brendoncarroll.net/p2p/p/p2pke"

	"verifharness/internal/ev"
	"verifharness/internal/rng"
)

func init() { register("C03", runC03) }

// victim wraps an honest session whose Noise counterpart is known to the harness.
type victim struct {
	s        *p2pke.Session
	name     string
	truePeer *x509.PublicKey // key of the principal that holds the other end of the Noise session (nil: nobody yet)
	now      time.Time
	log      []string
	viol     violFn
	failed   bool
	attack   string
	reached  bool // the forged message got past parsing (reached signature/AEAD checks)
}

func (v *victim) detail(extra map[string]any) map[string]any {
	d := map[string]any{"victim": v.name, "attack": v.attack, "messages": v.log}
	for k, x := range extra {
		d[k] = x
	}
	return d
}

// deliver feeds one message to the victim and samples the usability observables afterwards.
func (v *victim) deliver(label string, m []byte) (reply []byte, isApp bool, err error) {
	if v.failed {
		return nil, false, nil
	}
	v.now = v.now.Add(time.Millisecond)
	v.log = append(v.log, fmt.Sprintf("%s (%d bytes, ctr=%s)", label, len(m), ctrStr(m)))
	var out []byte
	pan := sessCall(func() { isApp, out, err = v.s.Deliver(nil, append([]byte{}, m...), v.now) })
	if pan != nil {
		v.failed = true
		v.viol("C03/panic/deliver", fmt.Sprintf("Deliver panicked: %v", pan), v.detail(nil))
		return nil, false, nil
	}
	if err == nil {
		v.reached = true
	} else if _, ok := err.(p2pke.ErrDecryptionFailure); ok {
		v.reached = true
	} else if _, ok := err.(p2pke.ErrEarlyData); ok {
		v.reached = true
	} else {
		v.reached = true // signature / handshake errors also come after parsing
	}
	v.check(label, isApp)
	if !isApp {
		reply = out
	}
	return reply, isApp, err
}

func ctrStr(m []byte) string {
	c, ok := msgCounter(m)
	if !ok {
		return "-"
	}
	return fmt.Sprint(c)
}

// check is the C03 oracle: usable only with the key of whoever holds the other end.
func (v *victim) check(after string, wasApp bool) {
	if v.failed {
		return
	}
	ready := v.s.IsReady()
	var sendOK bool
	pan := sessCall(func() {
		_, err := v.s.Send(nil, []byte("probe"), v.now)
		sendOK = err == nil
	})
	if pan != nil {
		v.failed = true
		v.viol("C03/panic/send", fmt.Sprintf("Send panicked: %v", pan), v.detail(nil))
		return
	}
	usable := ready || wasApp || sendOK
	if !usable {
		return
	}
	rk := v.s.RemoteKey()
	how := fmt.Sprintf("ready=%v acceptedAppData=%v sendOK=%v", ready, wasApp, sendOK)
	if v.truePeer == nil {
		v.failed = true
		v.viol("C03/usable-without-peer/"+v.attack, "session became usable although nobody completed a handshake with it ("+how+")", v.detail(map[string]any{"after": after}))
		return
	}
	if !x509.EqualPublicKeys(&rk, v.truePeer) {
		v.failed = true
		v.viol("C03/usable-with-unproven-key/"+v.attack, "session is usable ("+how+") while reporting a remote key whose private half the peer never used in this handshake", v.detail(map[string]any{"after": after, "reported_remote_key": fmt.Sprintf("%x", rk.Data), "true_peer_key": fmt.Sprintf("%x", v.truePeer.Data)}))
	}
}

type c03Attack struct {
	name string
	run  func(r *ev.Run, g *rng.R, caseID string) (nontrivial bool, shape string)
}

func runC03(r *ev.Run) {
	r.Rule = "attack catalogue against honest sessions in both roles using a raw Noise/P2PKE attacker with its own key: replayed InitHello bodies, RespHello/InitDone with missing/garbage/own/lifted/cross-purpose signatures, early data, forged messages injected at every point of an honest handshake, truthful controls; IsReady/RemoteKey/Send/isApp sampled after every delivered message. non-trivial = the forged message was well-formed enough to reach the signature/AEAD checks; distinct = (attack, role, injection point, victim state)"
	r.Assumptions = []string{"cryptographic soundness of Ed25519/Noise is trusted; the adversary is the concrete catalogue, composed randomly"}
	attacks := c03Catalogue()
	n := pick(r, 400, 6000)
	// a few honestly established sessions live through the whole run: thousands of other handshakes (with other keys, forged
	// and genuine) happen in the same process meanwhile, and at the end each must still report the key it authenticated.
	type longLived struct {
		s    *p2pke.Session
		peer x509.PublicKey
		name string
	}
	var elders []longLived
	for i := 0; i < 4; i++ {
		ka, kb := keyN(300+2*i), keyN(301+2*i)
		a, b := newSession(ka, true, pkeT0), newSession(kb, false, pkeT0)
		now := pkeT0.Add(time.Second)
		_, m1, _ := b.Deliver(nil, a.Handshake(nil), now)
		_, m2, _ := a.Deliver(nil, m1, now)
		_, m3, _ := b.Deliver(nil, m2, now)
		a.Deliver(nil, m3, now)
		if a.IsReady() && b.IsReady() {
			elders = append(elders, longLived{a, kb.Pub, fmt.Sprintf("initiator %d", i)}, longLived{b, ka.Pub, fmt.Sprintf("responder %d", i)})
		}
	}
	defer func() {
		// ... including handshakes with many keys never seen before
		for i := 0; i < 48; i++ {
			ka, kb := keyN(400+2*i), keyN(401+2*i)
			a, b := newSession(ka, true, pkeT0), newSession(kb, false, pkeT0)
			now := pkeT0.Add(time.Second)
			_, m1, _ := b.Deliver(nil, a.Handshake(nil), now)
			_, m2, _ := a.Deliver(nil, m1, now)
			_, m3, _ := b.Deliver(nil, m2, now)
			a.Deliver(nil, m3, now)
		}
		for _, e := range elders {
			r.Eval(1)
			rk := e.s.RemoteKey()
			if !x509.EqualPublicKeys(&rk, &e.peer) {
				r.Violate("C03/remote-key-changed-after-establishment", "long-lived", "a session established at the start of the run reports, at the end of it, a remote key other than the one its peer proved (other handshakes in the same process changed it)", map[string]any{"session": e.name, "reports": fmt.Sprintf("%x", rk.Data), "authenticated": fmt.Sprintf("%x", e.peer.Data)})
				return
			}
		}
		if len(elders) > 0 {
			r.NonTrivial("long-lived/remote-key-stable")
		}
	}()
	for ai, at := range attacks {
		g := rng.New(r.Seed, "C03", at.name, fmt.Sprint(r.Batch))
		for i := 0; i < n; i++ {
			caseID := fmt.Sprintf("%s-%d-%d", at.name, r.Batch, i)
			cg := g.Fork()
			if !r.Want(caseID) {
				continue
			}
			r.Eval(1)
			nt, shape := at.run(r, cg, caseID)
			if nt {
				r.NonTrivial(at.name + "/" + shape)
			}
			if i == 0 && ai%3 == 0 {
				r.Sample(map[string]any{"attack": at.name, "shape": shape, "reached_checks": nt})
			}
		}
	}
}

var (
	kA = 11 // honest initiator key
	kB = 12 // honest responder key
	kM = 13 // attacker key
	kC = 14 // another honest key
)

func sigVariant(g *rng.R, which int, claimed, attacker testKey, purpose string, cb, otherCB []byte) (name string, sig []byte) {
	switch which {
	case 0:
		return "no-sig", nil
	case 1:
		return "garbage-sig", g.Bytes(64)
	case 2:
		return "attacker-sig", advSign(attacker, purpose, cb)
	case 3:
		return "lifted-sig-other-binding", advSign(claimed, purpose, otherCB)
	case 4:
		other := advPurposeTS
		if purpose == advPurposeTS {
			other = advPurposeCB
		}
		return "cross-purpose-sig", advSign(claimed, other, cb)
	case 5:
		s := advSign(claimed, purpose, cb)
		s[g.Intn(len(s))] ^= 1 << uint(g.Intn(8))
		return "bitflipped-valid-sig", s
	case 7:
		// a genuine signature of the claimed key, verbatim, from a message of another kind: the timestamp signature of one of
		// its InitHellos. That very InitHello is first shown to an unrelated honest responder in this process, so that any
		// state the library keeps about "claims already verified" is primed.
		hello := newSession(claimed, true, pkeT0).Handshake(nil)
		newSession(keyN(kC), false, pkeT0).Deliver(nil, hello, pkeT0.Add(time.Second))
		var ih p2pke.InitHello
		pl := extractInitHelloPayload(hello)
		if len(pl) > 2 && proto.Unmarshal(pl[:len(pl)-2], &ih) == nil {
			return "verbatim-timestamp-sig-of-claimed-key", ih.Sig
		}
		return "no-sig", nil
	default:
		return "short-sig", advSign(attacker, purpose, cb)[:32]
	}
}

func c03Catalogue() []c03Attack {
	return []c03Attack{
		{"resp-victim/replayed-inithello", func(r *ev.Run, g *rng.R, caseID string) (bool, string) {
			// M as initiator with its own ephemeral and the replayed body of A's InitHello.
			a := newSession(keyN(kA), true, pkeT0)
			genuine := a.Handshake(nil)
			payload := extractInitHelloPayload(genuine)
			m := newRawPeer(keyN(kM), true)
			b := &victim{s: newSession(keyN(kB), false, pkeT0), name: "responder B", now: pkeT0.Add(time.Second), viol: mkViol(r, caseID), attack: "replayed-inithello"}
			mPub := keyN(kM).Pub
			b.truePeer = &mPub // M holds the other end; B must never be usable with a key other than M's
			reply, _, err := b.deliver("InitHello(own ephemeral, A's replayed key+timestamp signature)", m.InitHelloWith(payload))
			if err != nil || reply == nil {
				return false, "rejected-at-hello"
			}
			if _, err := m.ReadRespHello(reply); err != nil {
				return false, "attacker-could-not-read-resphello"
			}
			// other handshake's binding for lifted signatures
			otherCB := g.Bytes(64)
			order := g.Perm(8)
			steps := 1 + g.Intn(4)
			shape := ""
			for _, which := range order[:steps] {
				name, sig := sigVariant(g, which, keyN(kA), keyN(kM), advPurposeCB, m.cbAfter, otherCB)
				shape += name + ","
				b.deliver("InitDone("+name+")", m.InitDone(sig))
				if g.Bool() {
					b.deliver("early data ctr=16", m.Data(16, []byte("early")))
				}
				if g.Chance(1, 3) {
					b.deliver("data ctr=4", m.Data(4+uint32(g.Intn(12)), []byte("low")))
				}
			}
			b.deliver("RespDone-shaped", m.Data(3, nil))
			return b.reached, fmt.Sprintf("steps=%d", steps)
		}},
		{"resp-victim/same-hello-to-claimed-key-as-responder", func(r *ev.Run, g *rng.R, caseID string) (bool, string) {
			// M sends byte-identical InitHellos (same ephemeral, A's replayed claim) to the victim responder B and to A itself
			// acting as a responder elsewhere, and offers the signature of A's RespHello as the InitDone proof to B. The two
			// handshakes share their transcript up to the InitHello only.
			a := newSession(keyN(kA), true, pkeT0)
			payload := extractInitHelloPayload(a.Handshake(nil))
			seed := g.Bytes(32)
			m1, m2 := newRawPeerSeeded(keyN(kM), true, seed), newRawPeerSeeded(keyN(kM), true, seed)
			hello1, hello2 := m1.InitHelloWith(payload), m2.InitHelloWith(payload)
			if !bytes.Equal(hello1, hello2) {
				return false, "ephemerals-differ"
			}
			b := &victim{s: newSession(keyN(kB), false, pkeT0), name: "responder B", now: pkeT0.Add(time.Second), viol: mkViol(r, caseID), attack: "same-hello-two-responders"}
			mPub := keyN(kM).Pub
			b.truePeer = &mPub
			reply, _, err := b.deliver("InitHello(M ephemeral, A's claim)", hello1)
			if err != nil || reply == nil {
				return false, "rejected-at-hello"
			}
			if _, err := m1.ReadRespHello(reply); err != nil {
				return false, "x"
			}
			aResp := newSession(keyN(kA), false, pkeT0)
			_, replyA, err := aResp.Deliver(nil, hello2, pkeT0.Add(time.Second))
			if err != nil || replyA == nil {
				return false, "claimed-key-owner-refused-the-hello"
			}
			rh, err := m2.ReadRespHello(replyA)
			if err != nil {
				return false, "x"
			}
			b.deliver("InitDone(signature lifted from A's RespHello to the same InitHello)", m1.InitDone(rh.Sig))
			b.deliver("data ctr=16", m1.Data(16, []byte("spliced")))
			b.deliver("data ctr=17", m1.Data(17, []byte("spliced")))
			return b.reached, "spliced"
		}},
		{"resp-victim/truthful-control", func(r *ev.Run, g *rng.R, caseID string) (bool, string) {
			m := newRawPeer(keyN(kM), true)
			b := &victim{s: newSession(keyN(kB), false, pkeT0), name: "responder B", now: pkeT0.Add(time.Second), viol: mkViol(r, caseID), attack: "truthful-control"}
			mPub := keyN(kM).Pub
			b.truePeer = &mPub
			reply, _, err := b.deliver("InitHello(truthful)", m.InitHelloOwn(pkeT0))
			if err != nil || reply == nil {
				r.Inconclusive("c03 control (resp): " + "the raw attacker's truthful InitHello was rejected (harness or protocol drift)") // the harness's reference peer and the library no longer speak the same protocol: nothing can be judged
				return false, "x"
			}
			if _, err := m.ReadRespHello(reply); err != nil {
				return false, "x"
			}
			reply, _, err = b.deliver("InitDone(truthful)", m.InitDone(advSign(keyN(kM), advPurposeCB, m.cbAfter)))
			if err != nil || !b.s.IsReady() {
				r.Inconclusive("c03 control (resp): " + "a truthful raw handshake did not make the responder ready") // the harness's reference peer and the library no longer speak the same protocol: nothing can be judged
				return false, "x"
			}
			_, isApp, _ := b.deliver("data", m.NextData([]byte("hello")))
			if !isApp {
				r.Inconclusive("c03 control (resp): " + "truthful raw peer's data not accepted") // the harness's reference peer and the library no longer speak the same protocol: nothing can be judged
			}
			return true, "control"
		}},
		{"init-victim/forged-resphello", func(r *ev.Run, g *rng.R, caseID string) (bool, string) {
			// M as responder claiming B's key.
			a := &victim{s: newSession(keyN(kA), true, pkeT0), name: "initiator A", now: pkeT0.Add(time.Second), viol: mkViol(r, caseID), attack: "forged-resphello"}
			mPub := keyN(kM).Pub
			a.truePeer = &mPub
			hello := a.s.Handshake(nil)
			otherCB := g.Bytes(64)
			which := g.Intn(8)
			m := newRawPeer(keyN(kM), false)
			if err := m.ReadInitHello(hello); err != nil {
				return false, "x"
			}
			name, sig := sigVariant(g, which, keyN(kB), keyN(kM), advPurposeCB, m.cbBefore, otherCB)
			reply, _, _ := a.deliver("RespHello(claims B, "+name+")", m.RespHello(advKeyBytes(keyN(kB)), sig))
			// whatever happened, try to push data and done messages through
			a.deliver("RespDone", m.RespDone())
			a.deliver("data ctr=16", m.Data(16, []byte("x")))
			if reply != nil {
				if c, _ := msgCounter(reply); c == 2 {
					a.deliver("data ctr=17", m.Data(17, []byte("y")))
				}
			}
			return a.reached, name
		}},
		{"init-victim/truthful-control", func(r *ev.Run, g *rng.R, caseID string) (bool, string) {
			a := &victim{s: newSession(keyN(kA), true, pkeT0), name: "initiator A", now: pkeT0.Add(time.Second), viol: mkViol(r, caseID), attack: "truthful-control"}
			mPub := keyN(kM).Pub
			a.truePeer = &mPub
			m := newRawPeer(keyN(kM), false)
			if err := m.ReadInitHello(a.s.Handshake(nil)); err != nil {
				return false, "x"
			}
			reply, _, err := a.deliver("RespHello(truthful)", m.RespHello(advKeyBytes(keyN(kM)), advSign(keyN(kM), advPurposeCB, m.cbBefore)))
			if err != nil || reply == nil {
				r.Inconclusive("c03 control (init): " + "truthful raw RespHello rejected") // the harness's reference peer and the library no longer speak the same protocol: nothing can be judged
				return false, "x"
			}
			if _, err := m.ReadInitDone(reply); err != nil {
				r.Inconclusive("c03 control (init): " + "raw responder cannot read the initiator's InitDone") // the harness's reference peer and the library no longer speak the same protocol: nothing can be judged
				return false, "x"
			}
			if g.Bool() {
				a.deliver("RespDone", m.RespDone())
			} else {
				a.deliver("data instead of RespDone", m.NextData([]byte("d")))
			}
			if !a.s.IsReady() {
				r.Inconclusive("c03 control (init): " + "truthful raw handshake did not make the initiator ready") // the harness's reference peer and the library no longer speak the same protocol: nothing can be judged
			}
			return true, "control"
		}},
		{"mitm/lifted-between-parallel-handshakes", func(r *ev.Run, g *rng.R, caseID string) (bool, string) {
			// A <-> M <-> B: M terminates both Noise sessions and forwards B's signed fields to A and A's to B.
			a := &victim{s: newSession(keyN(kA), true, pkeT0), name: "initiator A", now: pkeT0.Add(time.Second), viol: mkViol(r, caseID), attack: "mitm-lift"}
			b := &victim{s: newSession(keyN(kB), false, pkeT0), name: "responder B", now: pkeT0.Add(time.Second), viol: mkViol(r, caseID), attack: "mitm-lift"}
			mPub := keyN(kM).Pub
			a.truePeer, b.truePeer = &mPub, &mPub
			helloA := a.s.Handshake(nil)
			mi := newRawPeer(keyN(kM), true)  // towards B
			mr := newRawPeer(keyN(kM), false) // towards A
			if err := mr.ReadInitHello(helloA); err != nil {
				return false, "x"
			}
			// replay A's signed body to B under M's ephemeral
			replyB, _, err := b.deliver("InitHello(M ephemeral, A's body)", mi.InitHelloWith(extractInitHelloPayload(helloA)))
			if err != nil || replyB == nil {
				return false, "x"
			}
			rh, err := mi.ReadRespHello(replyB)
			if err != nil {
				return false, "x"
			}
			// forward B's key and B's signature (over the M<->B binding) to A
			replyA, _, _ := a.deliver("RespHello(B's key and B's signature lifted from the M<->B handshake)", mr.RespHello(rh.KeyX509, rh.Sig))
			if replyA != nil {
				if id, err := mr.ReadInitDone(replyA); err == nil {
					// and A's InitDone signature (over the A<->M binding) to B
					b.deliver("InitDone(A's signature lifted from the A<->M handshake)", mi.InitDone(id.Sig))
				}
			}
			a.deliver("RespDone", mr.RespDone())
			a.deliver("data", mr.Data(16, []byte("to-a")))
			b.deliver("data", mi.Data(16, []byte("to-b")))
			return a.reached && b.reached, "mitm"
		}},
		{"honest/inject-during-handshake", func(r *ev.Run, g *rng.R, caseID string) (bool, string) {
			// honest A <-> B handshake with forged messages from M injected at a random point; afterwards the honest
			// handshake continues and each side, whenever usable, must report the other's key.
			a := &victim{s: newSession(keyN(kA), true, pkeT0), name: "initiator A", now: pkeT0.Add(time.Second), viol: mkViol(r, caseID), attack: "inject"}
			b := &victim{s: newSession(keyN(kB), false, pkeT0), name: "responder B", now: pkeT0.Add(time.Second), viol: mkViol(r, caseID), attack: "inject"}
			aPub, bPub := keyN(kA).Pub, keyN(kB).Pub
			a.truePeer, b.truePeer = &bPub, &aPub
			point := g.Intn(4)
			inject := func() {
				switch g.Intn(4) {
				case 0: // on-path M answers A's InitHello itself, claiming B with a signature of B lifted from another binding
					if a.s.VerifHsIndex() != 0 {
						break
					}
					m := newRawPeer(keyN(kM), false)
					if m.ReadInitHello(a.s.Handshake(nil)) == nil {
						a.deliver("injected RespHello(M's ephemeral, claims B, B's signature over another binding)", m.RespHello(advKeyBytes(keyN(kB)), advSign(keyN(kB), advPurposeCB, g.Bytes(64))))
						if a.s.VerifHsIndex() != 0 {
							// A accepted it: the other end of A's Noise session is now M
							mPub := keyN(kM).Pub
							a.truePeer = &mPub
							a.check("forged RespHello accepted", false)
						}
					}
				case 1: // random data-shaped frames
					f := append(hdr(uint32(16+g.Intn(5))), g.Bytes(16+g.Intn(40))...)
					a.deliver("injected random data frame", f)
					b.deliver("injected random data frame", f)
				case 2: // a second InitHello from M (own key) to B
					m := newRawPeer(keyN(kM), true)
					if b.s.VerifHsIndex() == 0 {
						// B has no handshake yet: it will legitimately start one with M
						mPub := keyN(kM).Pub
						b.truePeer = &mPub
					}
					b.deliver("injected InitHello(M truthful)", m.InitHelloOwn(pkeT0))
				default: // InitDone-shaped garbage
					f := append(hdr(2), g.Bytes(80)...)
					b.deliver("injected InitDone-shaped garbage", f)
					a.deliver("injected RespDone-shaped garbage", append(hdr(3), g.Bytes(16)...))
				}
			}
			if point == 0 {
				inject()
			}
			m0 := a.s.Handshake(nil)
			m1, _, _ := b.deliver("InitHello(genuine)", m0)
			if point == 1 {
				inject()
			}
			m2, _, _ := a.deliver("RespHello(genuine)", m1)
			if point == 2 {
				inject()
			}
			m3, _, _ := b.deliver("InitDone(genuine)", m2)
			if point == 3 {
				inject()
			}
			a.deliver("RespDone(genuine)", m3)
			return true, fmt.Sprintf("point=%d", point)
		}},
	}
}
