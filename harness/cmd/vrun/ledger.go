package main

import (
	"crypto/sha256"
	"encoding/binary"
	"fmt"
	"hash/crc32"
	"sync"
	"sync/atomic"

	"go.brendoncarroll.net/p2p"

	"verifharness/internal/rng"
)

// ledger of unique, self-describing payloads: a delivered byte string identifies the one Tell it may come from.

const ledgerHdr = 14 // magic(2) sender(2) dst(2) seq(4) len(4); + crc32(4) trailer

type lent struct {
	Sender, Dst int
	Seq         uint32
	Len         int
	Tag         int // free use (channel, request id, ...)
	delivered   atomic.Int32
}

type ledger struct {
	mu     sync.Mutex
	byHash map[[32]byte][]*lent // short payloads (and the empty one) may be shared: attribution is set-based
	seq    atomic.Uint32
}

func newLedger() *ledger {
	return &ledger{byHash: map[[32]byte][]*lent{}}
}

// mk creates and registers a payload of exactly n bytes from sender to dst.
func (l *ledger) mk(g *rng.R, sender, dst, n, tag int) []byte {
	seq := l.seq.Add(1)
	e := &lent{Sender: sender, Dst: dst, Seq: seq, Len: n, Tag: tag}
	var b []byte
	if n < ledgerHdr+4 {
		b = g.Bytes(n)
	} else {
		b = make([]byte, n)
		b[0], b[1] = 'L', '1'
		binary.BigEndian.PutUint16(b[2:], uint16(sender))
		binary.BigEndian.PutUint16(b[4:], uint16(dst))
		binary.BigEndian.PutUint32(b[6:], seq)
		binary.BigEndian.PutUint32(b[10:], uint32(n))
		g.Fill(b[ledgerHdr : n-4])
		binary.BigEndian.PutUint32(b[n-4:], crc32.ChecksumIEEE(b[:n-4]))
	}
	h := sha256.Sum256(b)
	l.mu.Lock()
	l.byHash[h] = append(l.byHash[h], e)
	l.mu.Unlock()
	return b
}

// lookup finds the Tells a delivered payload may come from.
func (l *ledger) lookup(p []byte) []*lent {
	h := sha256.Sum256(p)
	l.mu.Lock()
	e := l.byHash[h]
	l.mu.Unlock()
	return e
}

// describe says what an unknown payload resembles (for the witness).
func describePayload(p []byte) string {
	if len(p) >= ledgerHdr && p[0] == 'L' && p[1] == '1' {
		n := int(binary.BigEndian.Uint32(p[10:]))
		kind := "altered"
		switch {
		case len(p) < n:
			kind = "TRUNCATED"
		case len(p) > n:
			kind = "EXTENDED/CONCATENATED"
		}
		return fmt.Sprintf("%s: header says sender=%d dst=%d seq=%d len=%d, got %d bytes", kind,
			binary.BigEndian.Uint16(p[2:]), binary.BigEndian.Uint16(p[4:]), binary.BigEndian.Uint32(p[6:]), n, len(p))
	}
	allEE, allDD := len(p) > 0, len(p) > 0
	for _, c := range p {
		if c != 0xEE {
			allEE = false
		}
		if c != 0xDD {
			allDD = false
		}
	}
	if allEE {
		return "the sender's buffer as overwritten after Tell returned (0xEE): the library retained the caller's buffer"
	}
	if allDD {
		return "a buffer scribbled by an earlier callback (0xDD): a recycled buffer leaked into this message"
	}
	return fmt.Sprintf("%d bytes matching no told payload", len(p))
}

// segment splits b into 1..5 IOVec segments (some empty), returning the vector and pristine copies.
func segment(g *rng.R, b []byte) (p2p.IOVec, [][]byte) {
	n := 1 + g.Intn(5)
	var v p2p.IOVec
	rest := b
	for i := 0; i < n-1; i++ {
		k := 0
		if len(rest) > 0 && !g.Chance(1, 5) {
			k = g.Intn(len(rest) + 1)
		}
		seg := make([]byte, k) // each segment its own backing array, so retention is detectable per segment
		copy(seg, rest[:k])
		v = append(v, seg)
		rest = rest[k:]
	}
	last := make([]byte, len(rest))
	copy(last, rest)
	v = append(v, last)
	pristine := make([][]byte, len(v))
	for i := range v {
		pristine[i] = append([]byte{}, v[i]...)
	}
	return v, pristine
}

// segmentArena lays the segments out the way a sender that slices one buffer would: all in one backing array, with gaps of
// other bytes between and after them, every segment's capacity reaching to the end of the array. The last handle is the whole
// array: a Tell may not write to any of it.
func segmentArena(g *rng.R, b []byte) (v p2p.IOVec, handles, pristine [][]byte) {
	n := 2 + g.Intn(3)
	cuts := make([]int, 0, n+1)
	cuts = append(cuts, 0)
	rest := len(b)
	for i := 0; i < n-1; i++ {
		k := 0
		if rest > 0 && !g.Chance(1, 5) {
			k = g.Intn(rest + 1)
		}
		cuts = append(cuts, cuts[len(cuts)-1]+k)
		rest -= k
	}
	cuts = append(cuts, len(b))
	gaps := make([]int, n)
	total := len(b)
	for i := range gaps {
		gaps[i] = g.Intn(24)
		total += gaps[i]
	}
	arena := make([]byte, total)
	for i := range arena {
		arena[i] = 0xC7
	}
	off := 0
	for i := 0; i < n; i++ {
		seg := arena[off : off+cuts[i+1]-cuts[i]]
		copy(seg, b[cuts[i]:cuts[i+1]])
		v = append(v, seg)
		off += len(seg) + gaps[i]
	}
	handles = append(append([][]byte{}, v...), arena)
	for _, h := range handles {
		pristine = append(pristine, append([]byte{}, h...))
	}
	return v, handles, pristine
}

func lenClassOf(n, mtu, innerMTU int) string {
	switch {
	case n == 0:
		return "0"
	case n < ledgerHdr+4:
		return "short"
	case n == mtu:
		return "mtu"
	case n == mtu-1:
		return "mtu-1"
	case innerMTU > 0 && n > innerMTU:
		return fmt.Sprintf("multi-frag(%d)", min(n/innerMTU, 8))
	case n < 256:
		return "small"
	case n < 4096:
		return "medium"
	default:
		return "large"
	}
}
