package main

import (
	"bytes"
	"context"
	"crypto/rand"
	"crypto/tls"
	stdx509 "crypto/x509"
	"crypto/x509/pkix"
	"encoding/binary"
	"fmt"
	"io"
	"math/big"
	"net"
	"strings"
	"sync"
	"time"

	"github.com/quic-go/quic-go"
	"go.brendoncarroll.net/p2p"
	"go.brendoncarroll.net/p2p/f/x509"
	"go.brendoncarroll.net/p2p/s/quicswarm"
	"go.brendoncarroll.net/p2p/s/swarmutil"
	"go.brendoncarroll.net/p2p/s/udpswarm"

	"verifharness/internal/ev"
	"verifharness/internal/rng"
)

// ---- (g) QUIC: a raw TLS peer that holds only its own key but claims the victim's in every way a certificate can ----

// c04ClaimingCert: a certificate for the attacker's key whose names, key identifiers and issuer all point at the victim.
func c04ClaimingCert(attacker testKey, victimID string, victimRawKey []byte) tls.Certificate {
	serial, _ := rand.Int(rand.Reader, big.NewInt(1<<62))
	tmpl := stdx509.Certificate{
		SerialNumber:          serial,
		Subject:               pkix.Name{CommonName: victimID, Organization: []string{victimID}},
		Issuer:                pkix.Name{CommonName: victimID},
		DNSNames:              []string{victimID},
		SubjectKeyId:          victimRawKey,
		AuthorityKeyId:        victimRawKey,
		NotBefore:             time.Now().Add(-time.Hour),
		NotAfter:              time.Now().AddDate(0, 1, 0),
		KeyUsage:              stdx509.KeyUsageDigitalSignature | stdx509.KeyUsageCertSign,
		ExtKeyUsage:           []stdx509.ExtKeyUsage{stdx509.ExtKeyUsageClientAuth, stdx509.ExtKeyUsageServerAuth},
		BasicConstraintsValid: true,
		IsCA:                  true,
	}
	der, err := stdx509.CreateCertificate(rand.Reader, &tmpl, &tmpl, attacker.Std.Public(), attacker.Std)
	if err != nil {
		panic(err)
	}
	return tls.Certificate{Certificate: [][]byte{der}, PrivateKey: attacker.Std}
}

func c04QUICClaims(r *ev.Run, _ *rng.R, caseID string) {
	kS, kV, kA := keyN(170), keyN(171), keyN(172)
	idV, idA := quicswarm.DefaultFingerprinter(kV.Pub), quicswarm.DefaultFingerprinter(kA.Pub)
	type A = quicswarm.Addr[udpswarm.Addr]
	srv, err := quicswarm.NewOnUDP("127.0.0.1:0", kS.Priv)
	if err != nil {
		r.Inconclusive("c04 quic claims: cannot start server: " + err.Error())
		return
	}
	defer srv.Close()
	vic, err := quicswarm.NewOnUDP("127.0.0.1:0", kV.Priv)
	if err != nil {
		r.Inconclusive("c04 quic claims: cannot start victim: " + err.Error())
		return
	}
	defer vic.Close()
	ctx, cancel := context.WithCancel(context.Background())
	defer cancel()
	type seen struct {
		id      p2p.PeerID
		lookup  string // fingerprint of the key looked up in the handler, "" if the lookup returned none
		payload string
		via     string
	}
	var mu sync.Mutex
	var got []seen
	note := func(m p2p.Message[A], via string) {
		lk := ""
		func() {
			defer func() { recover() }()
			k := p2p.LookupPublicKeyInHandler[A, x509.PublicKey](srv, m.Src)
			lk = quicswarm.DefaultFingerprinter(k).String()
		}()
		mu.Lock()
		got = append(got, seen{m.Src.ID, lk, string(m.Payload), via})
		mu.Unlock()
	}
	go func() {
		for {
			if err := srv.Receive(ctx, func(m p2p.Message[A]) { note(m, "tell") }); err != nil {
				return
			}
		}
	}()
	go func() {
		for {
			if err := srv.ServeAsk(ctx, func(_ context.Context, resp []byte, m p2p.Message[A]) int {
				note(m, "ask")
				return copy(resp, "ok")
			}); err != nil {
				return
			}
		}
	}()
	go func() {
		for {
			if err := vic.Receive(ctx, func(p2p.Message[A]) {}); err != nil {
				return
			}
		}
	}()
	srvAddr := srv.LocalAddrs()[0]
	// the victim is a live, established peer of the server
	tctx, cf := context.WithTimeout(ctx, 5*time.Second)
	err = vic.Tell(tctx, srvAddr, p2p.IOVec{[]byte("VICTIM-genuine")})
	cf()
	if err != nil {
		r.Inconclusive("c04 quic claims: victim cannot reach server: " + err.Error())
		return
	}
	certA := swarmutil.GenerateSelfSigned(kA.Std)
	certV := swarmutil.GenerateSelfSigned(kV.Std) // stands for the victim's certificate as seen on any of its connections
	rawV := x509.MarshalPublicKey(nil, &kV.Pub)
	variants := []struct {
		name string
		cert tls.Certificate
	}{
		{"own-leaf+victim-cert-appended", tls.Certificate{Certificate: [][]byte{certA.Certificate[0], certV.Certificate[0]}, PrivateKey: kA.Std}},
		{"victim-leaf+own-cert-appended", tls.Certificate{Certificate: [][]byte{certV.Certificate[0], certA.Certificate[0]}, PrivateKey: kA.Std}},
		{"victim-cert-only,own-key", tls.Certificate{Certificate: [][]byte{certV.Certificate[0]}, PrivateKey: kA.Std}},
		{"own-key,names-and-key-ids-of-victim", c04ClaimingCert(kA, idV.String(), rawV)},
		{"own-key,names-of-victim+victim-cert-appended", func() tls.Certificate {
			c := c04ClaimingCert(kA, idV.String(), rawV)
			c.Certificate = append(c.Certificate, certV.Certificate[0])
			return c
		}()},
	}
	target := fmt.Sprintf("127.0.0.1:%d", srvAddr.Addr.Port)
	frame := func(body []byte) []byte {
		b := make([]byte, 4, 4+len(body))
		binary.BigEndian.PutUint32(b, uint32(len(body)))
		return append(b, body...)
	}
	for vi, v := range variants {
		r.Eval(1)
		tlsConf := &tls.Config{Certificates: []tls.Certificate{v.cert}, InsecureSkipVerify: true, NextProtos: []string{"p2p"}, ServerName: idV.String()}
		dctx, dcf := context.WithTimeout(ctx, 3*time.Second)
		conn, err := quic.DialAddr(dctx, target, tlsConf, &quic.Config{EnableDatagrams: true})
		dcf()
		if err != nil {
			r.NonTrivial("quic-claims/refused/" + v.name) // TLS (or the swarm) turned the connection down: nothing can be attributed
			continue
		}
		tag := fmt.Sprintf("ATTACK-%d-%s-%s", vi, v.name, caseID)
		sctx, scf := context.WithTimeout(ctx, 2*time.Second)
		if s, err := conn.OpenUniStreamSync(sctx); err == nil {
			s.Write([]byte(tag + "-tell"))
			s.Close()
		}
		if s, err := conn.OpenStreamSync(sctx); err == nil {
			s.Write(frame([]byte(tag + "-ask")))
			s.Close()
			io.ReadAll(io.LimitReader(s, 64))
		}
		scf()
		// wait for the server's callbacks (or for nothing)
		for w := 0; w < 300; w++ {
			mu.Lock()
			n := 0
			for _, x := range got {
				if strings.HasPrefix(x.payload, tag) {
					n++
				}
			}
			mu.Unlock()
			if n >= 2 {
				break
			}
			time.Sleep(time.Millisecond)
		}
		conn.CloseWithError(0, "")
		delivered := false
		mu.Lock()
		for _, x := range got {
			if !strings.HasPrefix(x.payload, tag) {
				continue
			}
			delivered = true
			det := map[string]any{"certificate": v.name, "via": x.via, "attributed_to": x.id.String(), "looked_up": x.lookup, "id_victim": idV.String(), "id_attacker": idA.String()}
			switch {
			case x.id == idV:
				r.Violate("C04/attributed-to-victim-key/quic", caseID, "a message from a QUIC peer that holds only its own key was attributed to the key it merely claimed in its certificate chain", det)
			case x.id != idA:
				r.Violate("C04/attributed-to-unproven-key/quic", caseID, "a message from a QUIC peer was attributed to an identity that is not the fingerprint of the key it proved", det)
			case x.lookup != "" && x.lookup != idA.String():
				r.Violate("C04/lookup-in-handler-wrong-key/quic", caseID, "the key looked up in the handler for the source is not the key the sender proved", det)
			}
		}
		mu.Unlock()
		if delivered {
			r.NonTrivial("quic-claims/delivered-as-attacker/" + v.name)
		} else {
			r.NonTrivial("quic-claims/connected-but-nothing-delivered/" + v.name)
		}
	}
	// the genuine victim is still attributed to itself after all that
	tctx, cf = context.WithTimeout(ctx, 5*time.Second)
	vic.Tell(tctx, srvAddr, p2p.IOVec{[]byte("VICTIM-genuine-2")})
	cf()
	time.Sleep(20 * time.Millisecond)
	mu.Lock()
	for _, x := range got {
		if strings.HasPrefix(x.payload, "VICTIM-") && x.id != idV {
			r.Violate("C04/wrong-source-identity/quic", caseID, "the genuine victim's message was attributed to another identity", map[string]any{"attributed_to": x.id.String(), "id_victim": idV.String()})
		}
	}
	mu.Unlock()

	// reverse direction: the server is told to reach identity V at the attacker's transport address; the attacker answers
	// as a QUIC server with each of the claiming chains. The payload must never reach it.
	for vi, v := range variants {
		r.Eval(1)
		ln, err := quic.ListenAddr("127.0.0.1:0", &tls.Config{Certificates: []tls.Certificate{v.cert}, NextProtos: []string{"p2p"}, ClientAuth: tls.RequireAnyClientCert, InsecureSkipVerify: true}, &quic.Config{EnableDatagrams: true})
		if err != nil {
			r.Count("quic_claims_listen_failed", 1)
			continue
		}
		secret := []byte(fmt.Sprintf("SECRET-for-V-%d-%s", vi, caseID))
		leak := make(chan string, 4)
		lctx, lcf := context.WithCancel(ctx)
		go func() {
			for {
				c, err := ln.Accept(lctx)
				if err != nil {
					return
				}
				go func() {
					for {
						s, err := c.AcceptUniStream(lctx)
						if err != nil {
							return
						}
						b, _ := io.ReadAll(io.LimitReader(s, 1<<16))
						if bytes.Contains(b, secret) {
							leak <- "tell"
						}
					}
				}()
				go func() {
					for {
						s, err := c.AcceptStream(lctx)
						if err != nil {
							return
						}
						b, _ := io.ReadAll(io.LimitReader(s, 1<<16))
						if bytes.Contains(b, secret) {
							leak <- "ask"
						}
						s.Write(frame([]byte("pwned")))
						s.Close()
					}
				}()
			}
		}()
		lcf2 := func() { lcf(); ln.Close() }
		aport := ln.Addr().(*net.UDPAddr).Port
		dst, perr := srv.ParseAddr([]byte(fmt.Sprintf("%s@127.0.0.1:%d", idV.String(), aport)))
		if perr != nil {
			lcf2()
			r.Count("quic_claims_parse_failed", 1)
			continue
		}
		tctx, cf := context.WithTimeout(ctx, 1500*time.Millisecond)
		terr := srv.Tell(tctx, dst, p2p.IOVec{secret})
		cf()
		tctx, cf = context.WithTimeout(ctx, 1500*time.Millisecond)
		_, aerr := srv.Ask(tctx, make([]byte, 16), dst, p2p.IOVec{secret})
		cf()
		var leaked string
		select {
		case leaked = <-leak:
		case <-time.After(30 * time.Millisecond):
		}
		lcf2()
		det := map[string]any{"certificate": v.name, "tell_error": fmt.Sprint(terr), "ask_error": fmt.Sprint(aerr)}
		switch {
		case leaked != "":
			det["via"] = leaked
			r.Violate("C04/payload-for-X-delivered-to-other-key/quic", caseID, "a Tell/Ask addressed to identity V reached a QUIC peer that holds only another key but claimed V's in its certificate chain", det)
		case terr == nil || aerr == nil:
			r.Violate("C04/wrong-identity-accepted/quic", caseID, "a Tell/Ask to identity V reported success although the peer at that address proved another key", det)
		default:
			r.NonTrivial("quic-claims/dial-refused/" + v.name)
		}
	}
}
