package main

import (
	"bytes"
	"encoding/binary"
	"fmt"
	"math"

	"go.brendoncarroll.net/p2p"
	"go.brendoncarroll.net/p2p/p/p2pmux"

	"verifharness/internal/ev"
	"verifharness/internal/rng"
)

func init() { register("C15", runC15) }

// frameKind adapts one multiplexer kind to a uniform (channel-as-string) interface.
type frameKind struct {
	name  string
	genC  func(g *rng.R) (any, string)
	mux   func(c any, x p2p.IOVec) p2p.IOVec
	demux func(b []byte) (any, []byte, error)
	key   func(c any) string
}

func genUint(g *rng.R, bits uint) (uint64, string) {
	max := uint64(math.MaxUint64)
	if bits < 64 {
		max = (uint64(1) << bits) - 1
	}
	pickv := []uint64{0, 1, 127, 128, 255, 256, 1<<14 - 1, 1 << 14, 1<<21 - 1, 1 << 21, 1<<28 - 1, 1 << 28, 1<<32 - 1, 1 << 32, 1<<35 - 1, 1 << 35, 1<<63 - 1, 1 << 63, math.MaxUint64 - 1, math.MaxUint64}
	switch g.Intn(4) {
	case 0:
		v := rng.Pick(g, pickv) & max
		return v, "boundary"
	case 1:
		return uint64(g.Intn(300)) & max, "small"
	case 2:
		// a value whose varint encoding is a prefix-extension of another
		v := rng.Pick(g, pickv)
		return (v<<7 | uint64(g.Intn(128))) & max, "shifted"
	default:
		return g.U64() & max, "random"
	}
}

func genChanString(g *rng.R) (string, string) {
	switch g.Intn(9) {
	case 0:
		return "", "empty"
	case 1:
		return string(rune('a' + g.Intn(3))), "1char"
	case 2:
		return "ab"[:1+g.Intn(2)] + "c"[:g.Intn(2)], "prefixy"
	case 3:
		return string(g.Bytes(127 + g.Intn(3))), "len~128"
	case 4:
		return string(g.Bytes(g.Intn(301))), "bytes"
	case 5:
		// a name that looks like a frame header of another name
		n := g.Intn(4)
		b := binary.AppendUvarint(nil, uint64(n))
		b = append(b, g.Bytes(n)...)
		return string(b), "header-like"
	case 6:
		return string([]byte{0, 0, byte(g.Intn(2))}), "nuls"
	case 7:
		return string(g.Bytes(16383 + g.Intn(3))), "len~16384"
	default:
		return fmt.Sprintf("chan-%d", g.Intn(100)), "named"
	}
}

func frameKinds() []frameKind {
	return []frameKind{
		{"string", func(g *rng.R) (any, string) { s, c := genChanString(g); return s, c },
			func(c any, x p2p.IOVec) p2p.IOVec { return p2pmux.VerifStringMux(c.(string), x) },
			func(b []byte) (any, []byte, error) { return p2pmux.VerifStringDemux(b) },
			func(c any) string { return c.(string) }},
		{"varint", func(g *rng.R) (any, string) { v, c := genUint(g, 64); return v, c },
			func(c any, x p2p.IOVec) p2p.IOVec { return p2pmux.VerifVarintMux(c.(uint64), x) },
			func(b []byte) (any, []byte, error) { return p2pmux.VerifVarintDemux(b) },
			func(c any) string { return fmt.Sprint(c) }},
		{"uint16", func(g *rng.R) (any, string) { v, c := genUint(g, 16); return uint16(v), c },
			func(c any, x p2p.IOVec) p2p.IOVec { return p2pmux.VerifUint16Mux(c.(uint16), x) },
			func(b []byte) (any, []byte, error) { return p2pmux.VerifUint16Demux(b) },
			func(c any) string { return fmt.Sprint(c) }},
		{"uint32", func(g *rng.R) (any, string) { v, c := genUint(g, 32); return uint32(v), c },
			func(c any, x p2p.IOVec) p2p.IOVec { return p2pmux.VerifUint32Mux(c.(uint32), x) },
			func(b []byte) (any, []byte, error) { return p2pmux.VerifUint32Demux(b) },
			func(c any) string { return fmt.Sprint(c) }},
		{"uint64", func(g *rng.R) (any, string) { v, c := genUint(g, 64); return v, c },
			func(c any, x p2p.IOVec) p2p.IOVec { return p2pmux.VerifUint64Mux(c.(uint64), x) },
			func(b []byte) (any, []byte, error) { return p2pmux.VerifUint64Demux(b) },
			func(c any) string { return fmt.Sprint(c) }},
	}
}

func genMuxPayload(g *rng.R) ([]byte, string) {
	switch g.Intn(7) {
	case 0:
		return nil, "p-empty"
	case 1:
		return []byte{byte(g.Intn(256))}, "p-1"
	case 2:
		// payload that itself looks like a header
		b := binary.AppendUvarint(nil, uint64(g.Intn(5)))
		return append(b, g.Bytes(g.Intn(6))...), "p-headerlike"
	case 3:
		return g.Bytes(g.Intn(16)), "p-short"
	case 4:
		return bytes.Repeat([]byte{0}, g.Intn(9)), "p-zeros"
	default:
		return g.Bytes(g.Intn(2000)), "p-random"
	}
}

func splitVec(g *rng.R, b []byte) p2p.IOVec {
	if len(b) == 0 {
		switch g.Intn(3) {
		case 0:
			return nil
		case 1:
			return p2p.IOVec{nil}
		default:
			return p2p.IOVec{{}, {}}
		}
	}
	n := 1 + g.Intn(4)
	var v p2p.IOVec
	rest := b
	for i := 0; i < n-1 && len(rest) > 0; i++ {
		k := g.Intn(len(rest) + 1)
		v = append(v, rest[:k])
		rest = rest[k:]
	}
	v = append(v, rest)
	return v
}

func runC15(r *ev.Run) {
	r.Rule = "direct: generated (channel id, payload) pairs per multiplexer kind incl. engineered near-collisions; oracle demux(flatten(mux(c,x)))==(c,x), frame-set injectivity, header prefix-freeness; end-to-end: confusable channel sets on real Mux instances; non-trivial = id class other than 'named'/'small' or an e2e delivery; distinct = (kind, id class, payload class)"
	r.Assumptions = []string{"an empty payload may come back as nil or empty"}
	n := pick(r, 60000, 3000000)
	for _, k := range frameKinds() {
		g := rng.New(r.Seed, "C15", k.name, fmt.Sprint(r.Batch))
		frames := map[string]string{} // frame bytes -> "c|payload" identity
		type hdr struct {
			key string
			h   []byte
		}
		var headers []hdr
		seenHdr := map[string]bool{}
		for i := 0; i < n; i++ {
			caseID := fmt.Sprintf("%s-%d-%d", k.name, r.Batch, i)
			cg := g.Fork()
			if !r.Want(caseID) {
				continue
			}
			c, cclass := k.genC(cg)
			x, pclass := genMuxPayload(cg)
			r.Eval(1)
			orig := append([]byte{}, x...)
			vec := splitVec(cg, x)
			var flat []byte
			var dc any
			var dx []byte
			var derr error
			pan := func() (p any) {
				defer func() { p = recover() }()
				out := k.mux(c, vec)
				flat = p2p.VecBytes(nil, out)
				dc, dx, derr = k.demux(append([]byte{}, flat...))
				return nil
			}()
			if pan != nil {
				r.Violate("C15/framing-panic/"+k.name, caseID, fmt.Sprintf("mux/demux panicked: %v", pan), map[string]any{"chan": fmt.Sprintf("%q", k.key(c)), "payload_len": len(x)})
				continue
			}
			if !bytes.Equal(x, orig) {
				r.Violate("C15/mux-modified-input/"+k.name, caseID, "mux modified the caller's payload", nil)
			}
			if derr != nil {
				r.Violate("C15/roundtrip-error/"+k.name, caseID, "demux(mux(c,x)) failed: "+derr.Error(), map[string]any{"chan": fmt.Sprintf("%q", k.key(c)), "payload_len": len(x)})
				continue
			}
			if k.key(dc) != k.key(c) || !bytes.Equal(dx, x) {
				r.Violate("C15/roundtrip-mismatch/"+k.name, caseID, "demux(mux(c,x)) != (c,x)", map[string]any{"chan": fmt.Sprintf("%q", k.key(c)), "chan_back": fmt.Sprintf("%q", k.key(dc)), "payload": fmt.Sprintf("%x", x), "payload_back": fmt.Sprintf("%x", dx)})
				continue
			}
			// injectivity over the generated set
			id := k.key(c) + "\x00|\x00" + string(x)
			if len(flat) <= 4096 {
				if prev, ok := frames[string(flat)]; ok && prev != id {
					r.Violate("C15/frame-collision/"+k.name, caseID, "two different (channel,payload) pairs produced the same frame", map[string]any{"a": fmt.Sprintf("%q", prev), "b": fmt.Sprintf("%q", id)})
				}
				if len(frames) < 200000 {
					frames[string(flat)] = id
				}
			}
			// header = frame of the empty payload
			hb := p2p.VecBytes(nil, k.mux(c, nil))
			if !bytes.HasPrefix(flat, hb) || len(flat) != len(hb)+len(x) {
				r.Violate("C15/header-not-prefix/"+k.name, caseID, "frame is not header(c) || payload", map[string]any{"chan": fmt.Sprintf("%q", k.key(c))})
			}
			if !seenHdr[k.key(c)] && len(headers) < 600 && len(hb) < 400 {
				seenHdr[k.key(c)] = true
				// prefix-freeness against every header seen so far
				for _, o := range headers {
					if bytes.HasPrefix(hb, o.h) || bytes.HasPrefix(o.h, hb) {
						r.Violate("C15/header-not-prefix-free/"+k.name, caseID, "header of one channel is a prefix of another channel's header", map[string]any{"a": fmt.Sprintf("%q", o.key), "b": fmt.Sprintf("%q", k.key(c))})
					}
				}
				headers = append(headers, hdr{k.key(c), hb})
				r.Count("header_pairs_checked", int64(len(headers)-1))
			}
			if cclass != "named" && cclass != "small" {
				r.NonTrivial(k.name + "/" + cclass + "/" + pclass)
			}
			if i == 0 {
				r.Sample(map[string]any{"kind": k.name, "chan": fmt.Sprintf("%q", k.key(c)), "payload_len": len(x), "frame_prefix": fmt.Sprintf("%x", flat[:min(len(flat), 24)])})
			}
		}
	}
	runC15E2E(r)
}

func min(a, b int) int {
	if a < b {
		return a
	}
	return b
}
