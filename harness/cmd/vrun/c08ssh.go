package main

import (
	"context"
	"fmt"
	"net"
	"sync/atomic"
	"time"

	"go.brendoncarroll.net/p2p"
	"go.brendoncarroll.net/p2p/s/sshswarm"
	"golang.org/x/crypto/ssh"

	"verifharness/internal/rng"
)

// c08SSH: a raw x/crypto/ssh client that authenticates honestly and then sends hostile global requests (odd names, empty /
// MTU+-1 / huge payloads, with and without reply) and channel opens to a real sshswarm node, which must stay up and keep
// serving an honest peer.
func c08SSH(c *c08Ctx) {
	g := c.g.Fork()
	srv, err := sshswarm.New("127.0.0.1:0", sshSigner(185))
	if err != nil {
		c.r.Inconclusive("c08 ssh: cannot start server: " + err.Error())
		return
	}
	defer srv.Close()
	ctx, cancel := context.WithCancel(context.Background())
	defer cancel()
	var tells, asks atomic.Int64
	go func() {
		for {
			if err := srv.Receive(ctx, func(m p2p.Message[sshswarm.Addr]) { tells.Add(1) }); err != nil {
				return
			}
		}
	}()
	for k := 0; k < 2; k++ {
		go func() {
			for {
				if err := srv.ServeAsk(ctx, func(_ context.Context, resp []byte, m p2p.Message[sshswarm.Addr]) int {
					asks.Add(1)
					return copy(resp, "pong")
				}); err != nil {
					return
				}
			}
		}()
	}
	laddr := srv.LocalAddrs()[0]
	target := fmt.Sprintf("%s:%d", laddr.IP, laddr.Port)
	dial := func() (ssh.Conn, <-chan ssh.NewChannel, <-chan *ssh.Request, error) {
		conn, err := net.DialTimeout("tcp", target, 2*time.Second)
		if err != nil {
			return nil, nil, nil, err
		}
		cfg := &ssh.ClientConfig{User: "x", HostKeyCallback: ssh.InsecureIgnoreHostKey(), Timeout: 3 * time.Second, Auth: []ssh.AuthMethod{ssh.PublicKeys(sshSigner(186))}}
		sc, chans, reqs, err := ssh.NewClientConn(conn, target, cfg)
		if err != nil {
			conn.Close()
		}
		return sc, chans, reqs, err
	}
	sc, chans, reqs, err := dial()
	if err != nil {
		c.r.Inconclusive("c08 ssh: raw client cannot connect: " + err.Error())
		return
	}
	go ssh.DiscardRequests(reqs)
	go func() {
		for nc := range chans {
			nc.Reject(ssh.Prohibited, "no")
		}
	}()
	mtu := srv.MTU()
	sizes := []int{0, 1, 2, 3, 4, 15, 16, 17, 255, 256, mtu - 1, mtu, mtu + 1, 2 * mtu}
	names := []string{"", "x", "keepalive@openssh.com", "tcpip-forward", string(make([]byte, 300)), "\x00", "p2p"}
	n := pick(c.r, 200, 800)
	for i := 0; i < n; i++ {
		kind := g.Intn(6)
		switch {
		case kind < 4:
			name, sz, want := rng.Pick(g, names), rng.Pick(g, sizes), g.Bool()
			payload := g.Bytes(sz)
			c.record(fmt.Sprintf("sshswarm/request(name=%q,want_reply=%v,len=%d)", trunc([]byte(name), 24), want, sz), trunc(payload, 64))
			done := make(chan struct{})
			cur := sc
			go func() { cur.SendRequest(name, want, payload); close(done) }()
			select {
			case <-done:
			case <-time.After(2 * time.Second):
				// the connection may be wedged by this request: take a fresh one, the server itself is judged by the probe below
				sc.Close()
				if sc2, ch2, rq2, err := dial(); err == nil {
					sc = sc2
					go ssh.DiscardRequests(rq2)
					go func() {
						for nc := range ch2 {
							nc.Reject(ssh.Prohibited, "no")
						}
					}()
				}
			}
			c.r.NonTrivial(fmt.Sprintf("ssh/request/want=%v/len=%s", want, lenClassOf(sz, mtu, 0)))
		case kind == 4:
			typ := rng.Pick(g, []string{"session", "direct-tcpip", "", "x11", string(make([]byte, 200))})
			extra := g.Bytes(rng.Pick(g, []int{0, 1, 64, 4096}))
			c.record(fmt.Sprintf("sshswarm/open-channel(type=%q,extra=%d)", trunc([]byte(typ), 16), len(extra)), trunc(extra, 32))
			done := make(chan struct{})
			cur := sc
			go func() {
				if ch, rq, err := cur.OpenChannel(typ, extra); err == nil {
					go ssh.DiscardRequests(rq)
					ch.Close()
				}
				close(done)
			}()
			select {
			case <-done:
			case <-time.After(2 * time.Second):
			}
			c.r.NonTrivial("ssh/open-channel")
		default:
			// abrupt disconnect and reconnect in the middle of everything
			c.record("sshswarm/reconnect", nil)
			sc.Close()
			if sc2, ch2, rq2, err := dial(); err == nil {
				sc = sc2
				go ssh.DiscardRequests(rq2)
				go func() {
					for nc := range ch2 {
						nc.Reject(ssh.Prohibited, "no")
					}
				}()
			}
			c.r.NonTrivial("ssh/reconnect")
		}
	}
	sc.Close()
	// liveness: an honest sshswarm peer must still be served
	cl, err := sshswarm.New("127.0.0.1:0", sshSigner(187))
	if err != nil {
		c.r.Inconclusive("c08 ssh: probe client: " + err.Error())
		return
	}
	defer cl.Close()
	ok := false
	for try := 0; try < 5 && !ok; try++ {
		resp := make([]byte, 16)
		type res struct {
			n   int
			err error
		}
		rc := make(chan res, 1)
		go func() {
			pctx, pcf := context.WithTimeout(ctx, 3*time.Second)
			defer pcf()
			nn, err := cl.Ask(pctx, resp, laddr, p2p.IOVec{[]byte("ping")})
			rc <- res{nn, err}
		}()
		select {
		case x := <-rc:
			ok = x.err == nil && string(resp[:x.n]) == "pong"
		case <-time.After(5 * time.Second):
		}
	}
	if !ok {
		c.r.Violate("C08/not-serving/sshswarm", "layers", "after hostile requests from one client the node no longer answers an honest peer's ask", map[string]any{"tells_seen": tells.Load(), "asks_seen": asks.Load()})
	} else {
		c.r.NonTrivial("layer/sshswarm/survived-and-serving")
	}
	c.r.Count("ssh_hostile_requests", int64(n))
}
