package main

import (
	"context"
	"crypto/ed25519"
	"errors"
	"fmt"
	"math/big"
	"net/netip"
	"reflect"
	"regexp"
	"strings"

	"go.brendoncarroll.net/p2p"
	"go.brendoncarroll.net/p2p/s/memswarm"
	"go.brendoncarroll.net/p2p/s/multiswarm"
	"go.brendoncarroll.net/p2p/s/p2pkeswarm"
	"go.brendoncarroll.net/p2p/s/quicswarm"
	"go.brendoncarroll.net/p2p/s/sshswarm"
	"go.brendoncarroll.net/p2p/s/udpswarm"
	"golang.org/x/crypto/ssh"

	"verifharness/internal/ev"
	"verifharness/internal/rng"
)

func init() { register("C16", runC16) }

// parseOnly is a swarm of which only ParseAddr is functional; it lets the harness build
// multiswarm address schemas without sockets.
type parseOnly[A p2p.Addr] struct {
	parse func([]byte) (A, error)
}

func (s parseOnly[A]) Tell(ctx context.Context, dst A, v p2p.IOVec) error { return errors.New("stub") }
func (s parseOnly[A]) Receive(ctx context.Context, fn func(p2p.Message[A])) error {
	<-ctx.Done()
	return ctx.Err()
}
func (s parseOnly[A]) LocalAddrs() []A               { return nil }
func (s parseOnly[A]) MTU() int                      { return 1 << 16 }
func (s parseOnly[A]) Close() error                  { return nil }
func (s parseOnly[A]) ParseAddr(x []byte) (A, error) { return s.parse(x) }

// addrKind is one address type path with a generator and the parser of "the same swarm".
type addrKind struct {
	name  string
	gen   func(g *rng.R) (p2p.Addr, string)
	parse func([]byte) (p2p.Addr, error)
}

func genIP(g *rng.R) (netip.Addr, string) {
	switch g.Intn(10) {
	case 0:
		return netip.MustParseAddr("127.0.0.1"), "v4-loopback"
	case 1:
		return netip.AddrFrom4([4]byte(g.Bytes(4))), "v4"
	case 2:
		return netip.MustParseAddr("::1"), "v6-loopback"
	case 3, 4:
		return netip.AddrFrom16([16]byte(g.Bytes(16))), "v6"
	case 5:
		var b [16]byte
		b[10], b[11] = 0xff, 0xff
		copy(b[12:], g.Bytes(4))
		return netip.AddrFrom16(b), "v4-in-v6"
	case 6:
		b := [16]byte{0xfe, 0x80}
		copy(b[8:], g.Bytes(8))
		zones := []string{"eth0", "lo", "1", "wlan0.5"}
		return netip.AddrFrom16(b).WithZone(rng.Pick(g, zones)), "v6-zone"
	case 7:
		return netip.IPv6Unspecified(), "v6-unspec"
	case 8:
		return netip.IPv4Unspecified(), "v4-unspec"
	default:
		// v6 with long zero runs / embedded colons at the end
		var b [16]byte
		b[0] = 0x20
		b[1] = 0x01
		b[15] = byte(g.Intn(256))
		if g.Bool() {
			b[14] = byte(g.Intn(256))
		}
		return netip.AddrFrom16(b), "v6-compressed"
	}
}

func genPort(g *rng.R) (uint16, string) {
	switch g.Intn(5) {
	case 0:
		return 0, "p0"
	case 1:
		return 65535, "pmax"
	case 2:
		return uint16(g.Intn(10)), "p1digit"
	default:
		return uint16(g.Intn(65536)), "p"
	}
}

var sshFPs []string

func genSSHFingerprint(g *rng.R) (string, string) {
	seed := g.Bytes(32)
	pub := ed25519.NewKeyFromSeed(seed).Public()
	pk, err := ssh.NewPublicKey(pub)
	if err != nil {
		panic(err)
	}
	fp := ssh.FingerprintSHA256(pk)
	cls := "fp"
	if strings.Contains(fp, "+") {
		cls += "+plus"
	}
	if strings.Contains(fp, "/") {
		cls += "+slash"
	}
	return fp, cls
}

func genPeerID(g *rng.R) p2p.PeerID {
	var id p2p.PeerID
	switch g.Intn(4) {
	case 0:
	case 1:
		for i := range id {
			id[i] = 0xff
		}
	default:
		g.Fill(id[:])
	}
	return id
}

func buildAddrKinds() []addrKind {
	udpGen := func(g *rng.R) (udpswarm.Addr, string) {
		ip, c1 := genIP(g)
		port, c2 := genPort(g)
		return udpswarm.Addr{IP: ip, Port: port}, c1 + "/" + c2
	}
	memGen := func(g *rng.R) (memswarm.Addr, string) {
		switch g.Intn(3) {
		case 0:
			return memswarm.Addr{N: 0}, "n0"
		case 1:
			return memswarm.Addr{N: g.Intn(10)}, "n1"
		default:
			return memswarm.Addr{N: g.Intn(1 << 30)}, "nbig"
		}
	}
	sshGen := func(g *rng.R) (sshswarm.Addr, string) {
		fp, c0 := genSSHFingerprint(g)
		ip, c1 := genIP(g)
		port, c2 := genPort(g)
		return sshswarm.Addr{Fingerprint: fp, IP: ip, Port: port}, c0 + "/" + c1 + "/" + c2
	}
	udpParse := func(x []byte) (p2p.Addr, error) { return udpswarm.ParseAddr(x) }
	memParse := func(x []byte) (p2p.Addr, error) { return memswarm.ParseAddr(x) }
	sshParse := func(x []byte) (p2p.Addr, error) { return sshswarm.ParseAddr(x) }
	pkeUDPParse := func(x []byte) (p2p.Addr, error) { return p2pkeswarm.ParseAddr[udpswarm.Addr](udpswarm.ParseAddr, x) }
	pkeMemParse := func(x []byte) (p2p.Addr, error) { return p2pkeswarm.ParseAddr[memswarm.Addr](memswarm.ParseAddr, x) }
	quicUDPParse := func(x []byte) (p2p.Addr, error) { return quicswarm.ParseAddr[udpswarm.Addr](udpswarm.ParseAddr, x) }
	quicMemParse := func(x []byte) (p2p.Addr, error) { return quicswarm.ParseAddr[memswarm.Addr](memswarm.ParseAddr, x) }

	// multiswarm schemas built from parse-only swarms
	type quicUDP = quicswarm.Addr[udpswarm.Addr]
	type pkeUDP = p2pkeswarm.Addr[udpswarm.Addr]
	inner := map[string]multiswarm.DynSwarm{
		"udp":      multiswarm.WrapSwarm[udpswarm.Addr](parseOnly[udpswarm.Addr]{udpswarm.ParseAddr}),
		"mem":      multiswarm.WrapSwarm[memswarm.Addr](parseOnly[memswarm.Addr]{memswarm.ParseAddr}),
		"ssh":      multiswarm.WrapSwarm[sshswarm.Addr](parseOnly[sshswarm.Addr]{sshswarm.ParseAddr}),
		"quic+udp": multiswarm.WrapSwarm[quicUDP](parseOnly[quicUDP]{func(x []byte) (quicUDP, error) { return quicswarm.ParseAddr[udpswarm.Addr](udpswarm.ParseAddr, x) }}),
		"p2pke":    multiswarm.WrapSwarm[pkeUDP](parseOnly[pkeUDP]{func(x []byte) (pkeUDP, error) { return p2pkeswarm.ParseAddr[udpswarm.Addr](udpswarm.ParseAddr, x) }}),
		"a":        multiswarm.WrapSwarm[memswarm.Addr](parseOnly[memswarm.Addr]{memswarm.ParseAddr}),
		"x.y-z_9":  multiswarm.WrapSwarm[udpswarm.Addr](parseOnly[udpswarm.Addr]{udpswarm.ParseAddr}),
		"a:b":      multiswarm.WrapSwarm[memswarm.Addr](parseOnly[memswarm.Addr]{memswarm.ParseAddr}),
		"u@v":      multiswarm.WrapSwarm[udpswarm.Addr](parseOnly[udpswarm.Addr]{udpswarm.ParseAddr}),
		"sch/eme":  multiswarm.WrapSwarm[sshswarm.Addr](parseOnly[sshswarm.Addr]{sshswarm.ParseAddr}),
	}
	schema1 := multiswarm.NewSchemaFromSwarms(inner)
	// second level: a multiswarm whose transports include another multiswarm and a p2pke over it
	type pkeMulti = p2pkeswarm.Addr[multiswarm.Addr]
	level2 := map[string]multiswarm.DynSwarm{
		"multi": multiswarm.WrapSwarm[multiswarm.Addr](parseOnly[multiswarm.Addr]{schema1.ParseAddr}),
		"sec":   multiswarm.WrapSwarm[pkeMulti](parseOnly[pkeMulti]{func(x []byte) (pkeMulti, error) { return p2pkeswarm.ParseAddr[multiswarm.Addr](schema1.ParseAddr, x) }}),
		"udp":   inner["udp"],
	}
	schema2 := multiswarm.NewSchemaFromSwarms(level2)
	level3 := map[string]multiswarm.DynSwarm{
		"outer": multiswarm.WrapSwarm[multiswarm.Addr](parseOnly[multiswarm.Addr]{schema2.ParseAddr}),
	}
	schema3 := multiswarm.NewSchemaFromSwarms(level3)

	genInner1 := func(g *rng.R) (multiswarm.Addr, string) {
		switch g.Intn(10) {
		case 0:
			a, c := udpGen(g)
			return multiswarm.Addr{Scheme: "udp", Addr: a}, "udp:" + c
		case 1:
			a, c := memGen(g)
			return multiswarm.Addr{Scheme: "mem", Addr: a}, "mem:" + c
		case 2:
			a, c := sshGen(g)
			return multiswarm.Addr{Scheme: "ssh", Addr: a}, "ssh:" + c
		case 3:
			a, c := udpGen(g)
			return multiswarm.Addr{Scheme: "quic+udp", Addr: quicUDP{ID: genPeerID(g), Addr: a}}, "quic:" + c
		case 4:
			a, c := udpGen(g)
			return multiswarm.Addr{Scheme: "p2pke", Addr: pkeUDP{ID: genPeerID(g), Addr: a}}, "p2pke:" + c
		case 5:
			a, c := memGen(g)
			return multiswarm.Addr{Scheme: "a", Addr: a}, "a:" + c
		case 6:
			a, c := udpGen(g)
			return multiswarm.Addr{Scheme: "x.y-z_9", Addr: a}, "xyz:" + c
		case 7:
			a, c := memGen(g)
			return multiswarm.Addr{Scheme: "a:b", Addr: a}, "a:b:" + c
		case 8:
			a, c := udpGen(g)
			return multiswarm.Addr{Scheme: "u@v", Addr: a}, "u@v:" + c
		default:
			a, c := sshGen(g)
			return multiswarm.Addr{Scheme: "sch/eme", Addr: a}, "sch/eme:" + c
		}
	}
	genInner2 := func(g *rng.R) (multiswarm.Addr, string) {
		switch g.Intn(3) {
		case 0:
			a, c := genInner1(g)
			return multiswarm.Addr{Scheme: "multi", Addr: a}, "multi:" + c
		case 1:
			a, c := genInner1(g)
			return multiswarm.Addr{Scheme: "sec", Addr: pkeMulti{ID: genPeerID(g), Addr: a}}, "sec:" + c
		default:
			a, c := udpGen(g)
			return multiswarm.Addr{Scheme: "udp", Addr: a}, "udp:" + c
		}
	}
	return []addrKind{
		{"udp", func(g *rng.R) (p2p.Addr, string) { return udpGen(g) }, udpParse},
		{"mem", func(g *rng.R) (p2p.Addr, string) { return memGen(g) }, memParse},
		{"ssh", func(g *rng.R) (p2p.Addr, string) { return sshGen(g) }, sshParse},
		{"p2pke(udp)", func(g *rng.R) (p2p.Addr, string) {
			a, c := udpGen(g)
			return pkeUDP{ID: genPeerID(g), Addr: a}, c
		}, pkeUDPParse},
		{"p2pke(mem)", func(g *rng.R) (p2p.Addr, string) {
			a, c := memGen(g)
			return p2pkeswarm.Addr[memswarm.Addr]{ID: genPeerID(g), Addr: a}, c
		}, pkeMemParse},
		{"quic(udp)", func(g *rng.R) (p2p.Addr, string) {
			a, c := udpGen(g)
			return quicUDP{ID: genPeerID(g), Addr: a}, c
		}, quicUDPParse},
		{"quic(mem)", func(g *rng.R) (p2p.Addr, string) {
			a, c := memGen(g)
			return quicswarm.Addr[memswarm.Addr]{ID: genPeerID(g), Addr: a}, c
		}, quicMemParse},
		{"multi1", func(g *rng.R) (p2p.Addr, string) { return genInner1(g) }, func(x []byte) (p2p.Addr, error) { return schema1.ParseAddr(x) }},
		{"multi2", func(g *rng.R) (p2p.Addr, string) { return genInner2(g) }, func(x []byte) (p2p.Addr, error) { return schema2.ParseAddr(x) }},
		{"multi3", func(g *rng.R) (p2p.Addr, string) {
			a, c := genInner2(g)
			return multiswarm.Addr{Scheme: "outer", Addr: a}, "outer:" + c
		}, func(x []byte) (p2p.Addr, error) { return schema3.ParseAddr(x) }},
	}
}

func safeParse(parse func([]byte) (p2p.Addr, error), x []byte) (a p2p.Addr, err error, panicked any) {
	defer func() {
		if p := recover(); p != nil {
			panicked = p
		}
	}()
	a, err = parse(x)
	return a, err, nil
}

func mutateText(g *rng.R, t []byte) []byte {
	out := append([]byte{}, t...)
	special := []byte("@:/[]%+-_.= \n\x00")
	n := 1 + g.Intn(3)
	for i := 0; i < n; i++ {
		switch g.Intn(8) {
		case 0:
			if len(out) > 0 {
				p := g.Intn(len(out))
				out = append(out[:p], out[p+1:]...)
			}
		case 1:
			p := g.Intn(len(out) + 1)
			out = append(out[:p], append([]byte{rng.Pick(g, special)}, out[p:]...)...)
		case 2:
			if len(out) > 0 {
				out[g.Intn(len(out))] = byte(g.Intn(256))
			}
		case 3:
			if len(out) > 0 {
				out = out[:g.Intn(len(out))]
			}
		case 4:
			out = append(out, out...)
		case 5:
			if len(out) > 0 {
				p := g.Intn(len(out))
				out = append(out[:p], append([]byte(fmt.Sprint(g.U64())), out[p:]...)...)
			}
		case 6:
			if len(out) > 1 {
				p, q := g.Intn(len(out)), g.Intn(len(out))
				out[p], out[q] = out[q], out[p]
			}
		default:
			if len(out) > 0 {
				p := g.Intn(len(out))
				if out[p] >= '0' && out[p] <= '9' {
					out[p] = '0' + byte(g.Intn(10))
				} else {
					out[p] = rng.Pick(g, special)
				}
			}
		}
	}
	return out
}

func runC16(r *ev.Run) {
	r.Rule = "generated addresses of every address type path (udp, mem, ssh, identity@transport, scheme://inner nested to depth 3) are marshalled and parsed with the same swarm's parser; hostile texts are mutations of valid texts (accepted ones must survive marshal+parse) and valid texts whose port is replaced by numbers around and beyond 16 bits (accepted ones must come back with that very number); non-trivial = address class other than IPv4-loopback with the zero id; distinct = (type path, IP class, port class, fingerprint symbol class) or (type path, hostile outcome)"
	r.Assumptions = []string{
		"multiswarm scheme names are non-empty and contain neither '://' nor newlines (not expressible in the scheme://inner grammar)",
		"equality of parsed and original address is == on the typed value (reflect.DeepEqual) plus equality of re-marshalled text",
	}
	kinds := buildAddrKinds()
	n := pick(r, 12000, 600000)
	for ki, k := range kinds {
		g := rng.New(r.Seed, "C16", k.name, fmt.Sprint(r.Batch))
		var heldText []byte
		var heldCopy string
		for i := 0; i < n; i++ {
			caseID := fmt.Sprintf("%s-%d-%d", k.name, r.Batch, i)
			cg := g.Fork()
			if !r.Want(caseID) {
				continue
			}
			a, class := k.gen(cg)
			r.Eval(1)
			text, err := a.MarshalText()
			if err != nil {
				r.Violate("C16/marshal-error/"+k.name, caseID, "MarshalText failed: "+err.Error(), map[string]any{"addr": fmt.Sprintf("%#v", a)})
				continue
			}
			// the text of the previous address is still held (an address book marshals many addresses before using any)
			if heldText != nil && string(heldText) != heldCopy {
				r.Violate("C16/marshalled-text-changed-later/"+k.name, caseID, "the text returned by MarshalText for one address changed when another address was marshalled", map[string]any{"was": heldCopy, "now": string(heldText)})
			}
			heldText, heldCopy = text, string(text)
			if a.String() != string(text) {
				// String and MarshalText are allowed to differ, only count it
				r.Count("string_differs_from_marshal", 1)
			}
			back, err, pan := safeParse(k.parse, text)
			if pan != nil {
				r.Violate("C16/parse-panic/"+k.name, caseID, fmt.Sprintf("ParseAddr panicked on a marshalled address: %v", pan), map[string]any{"text": string(text)})
				continue
			}
			if err != nil {
				r.Violate("C16/roundtrip-parse-error/"+k.name+"/"+topClass(class), caseID, "ParseAddr(MarshalText(a)) failed: "+err.Error(), map[string]any{"text": string(text), "class": class})
				continue
			}
			if !reflect.DeepEqual(back, a) {
				r.Violate("C16/roundtrip-unequal/"+k.name+"/"+topClass(class), caseID, "ParseAddr(MarshalText(a)) != a", map[string]any{"text": string(text), "back": fmt.Sprintf("%#v", back), "orig": fmt.Sprintf("%#v", a)})
				continue
			}
			t2, _ := back.MarshalText()
			if string(t2) != string(text) {
				r.Violate("C16/remarshal-differs/"+k.name, caseID, "re-marshalled text differs", map[string]any{"text": string(text), "text2": string(t2)})
			}
			if !strings.HasPrefix(class, "v4-loopback") {
				r.NonTrivial(k.name + "/" + class)
			}
			if i == 0 && ki%3 == 0 {
				r.Sample(map[string]any{"kind": k.name, "class": class, "text": string(text)})
			}
			// hostile text
			ht := mutateText(cg, text)
			if cg.Chance(1, 50) {
				ht = cg.Bytes(cg.Intn(64))
			}
			if cg.Chance(1, 200) {
				ht = []byte(strings.Repeat(string(text), 200))
			}
			r.Eval(1)
			p, err, pan := safeParse(k.parse, ht)
			switch {
			case pan != nil:
				r.Violate("C16/parse-panic/"+k.name, caseID, fmt.Sprintf("ParseAddr panicked on hostile text: %v", pan), map[string]any{"text": fmt.Sprintf("%q", ht)})
			case err != nil:
				r.NonTrivial(k.name + "/hostile-rejected")
			default:
				pt, merr := p.MarshalText()
				if merr != nil {
					r.Violate("C16/hostile-accepted-unmarshalable/"+k.name, caseID, "accepted text yields an address that cannot be marshalled", map[string]any{"text": fmt.Sprintf("%q", ht)})
					break
				}
				p2, err2, pan2 := safeParse(k.parse, pt)
				if pan2 != nil || err2 != nil || !reflect.DeepEqual(p2, p) {
					r.Violate("C16/hostile-accepted-not-stable/"+k.name, caseID, "text was accepted but the resulting address does not survive marshal+parse", map[string]any{"text": fmt.Sprintf("%q", ht), "marshalled": fmt.Sprintf("%q", pt), "err": fmt.Sprint(err2), "panic": fmt.Sprint(pan2)})
					break
				}
				r.NonTrivial(k.name + "/hostile-accepted-stable")
			}
		}
	}
	c16PortBoundaries(r)
	runC16Harvest(r, rng.New(r.Seed, "C16", "harvest"))
}

var trailingPort = regexp.MustCompile(`^(.*:)([0-9]+)$`)

// c16PortBoundaries: "parsing arbitrary text either fails cleanly or yields an address that marshals back to an equivalent
// form" for the one numeric field addresses have. A valid text whose port is replaced by a number around and beyond 16 bits
// may be refused; if it is accepted, the port that comes back out must be that number.
func c16PortBoundaries(r *ev.Run) {
	if r.Batch != 0 {
		return
	}
	g := rng.New(r.Seed, "C16", "ports")
	// canonical decimal only: how a parser reads "00022" or "0x16" (decimal, octal, Go literal) is not settled by the property
	ports := []string{"0", "1", "22", "65535", "65536", "65537", "65558", "99999", "131072", "131094", "4294967295", "4294967296", "4294967318", "18446744073709551616", "18446744073709551638"}
	for _, k := range buildAddrKinds() {
		caseID := "ports-" + k.name
		if !r.Want(caseID) {
			continue
		}
		for i := 0; i < 40; i++ {
			a0, _ := k.gen(g)
			text, terr := a0.MarshalText()
			if terr != nil {
				continue
			}
			m := trailingPort.FindSubmatch(text)
			if m == nil {
				continue
			}
			for _, pv := range ports {
				ht := append(append([]byte{}, m[1]...), pv...)
				r.Eval(1)
				a, err, pan := safeParse(k.parse, ht)
				if pan != nil {
					r.Violate("C16/parse-panic/"+k.name, caseID, fmt.Sprintf("ParseAddr panicked: %v", pan), map[string]any{"text": fmt.Sprintf("%q", ht)})
					continue
				}
				if err != nil {
					r.NonTrivial(k.name + "/port-refused/" + pv)
					continue
				}
				out, merr := a.MarshalText()
				m2 := trailingPort.FindSubmatch(out)
				if merr != nil || m2 == nil {
					continue
				}
				in, _ := new(big.Int).SetString(pv, 10)
				got, _ := new(big.Int).SetString(string(m2[2]), 10)
				if in.Cmp(got) != 0 {
					r.Violate("C16/hostile-accepted-not-equivalent/"+k.name, caseID, fmt.Sprintf("text with port %s was accepted and came back with port %s", pv, m2[2]), map[string]any{"text": fmt.Sprintf("%q", ht), "marshalled": fmt.Sprintf("%q", out)})
					continue
				}
				r.NonTrivial(k.name + "/port-accepted-same/" + pv)
			}
		}
	}
}

func topClass(c string) string {
	// keep the IP class of the innermost address as the site class for signatures
	parts := strings.Split(c, ":")
	last := parts[len(parts)-1]
	f := strings.Split(last, "/")
	for _, x := range f {
		if strings.HasPrefix(x, "v4") || strings.HasPrefix(x, "v6") {
			if strings.HasPrefix(x, "v6") || x == "v4-in-v6" {
				return "v6"
			}
			return "v4"
		}
	}
	return "other"
}
