package main

import (
	"context"
	"encoding/binary"
	"fmt"
	"sort"
	"time"

	"go.brendoncarroll.net/p2p"

	"verifharness/internal/ev"
	"verifharness/internal/rng"
)

//go:noinline
func c11cancelAsker(fn func()) { fn() }

// c11CancelRacesReply: one asker, one server whose handler fills the whole response buffer (as large as the stack allows, so
// that assembling and copying it takes a while); each Ask is cancelled at a moment drawn around the measured round-trip time,
// i.e. while the reply is arriving. A successful Ask must hold exactly the response for this request; after a failed Ask the
// caller refills its buffer at once and nothing may be written into it afterwards (under -race the refill is the caller's
// legitimate write that a late library write races with).
func c11CancelRacesReply(r *ev.Run, st *Stack, g *rng.R, caseID, prop string, rounds int) {
	defer st.CloseAll()
	if !st.HasAsk || len(st.Nodes) < 2 {
		return
	}
	asker, server := st.Nodes[0], st.Nodes[1]
	respMax := server.MTU()
	if m := asker.MTU(); m < respMax {
		respMax = m
	}
	if respMax > 1<<20 {
		respMax = 1 << 20
	}
	if respMax < 64 {
		return
	}
	sctx, scancel := context.WithCancel(context.Background())
	defer scancel()
	fill := func(buf []byte, id uint64) {
		for i := 0; i+8 <= len(buf); i += 8 {
			binary.LittleEndian.PutUint64(buf[i:], id*0x9E3779B97F4A7C15+uint64(i))
		}
	}
	for k := 0; k < 2; k++ {
		go func() {
			for {
				if err := server.ServeAsk(sctx, func(_ context.Context, resp []byte, m Msg) int {
					if len(m.Payload) < 8 {
						return 0
					}
					id := binary.LittleEndian.Uint64(m.Payload)
					n := len(resp)
					if n > respMax {
						n = respMax
					}
					n -= n % 8
					fill(resp[:n], id)
					return n
				}); err != nil {
					return
				}
			}
		}()
	}
	viol := func(sig, desc string, d map[string]any) {
		d["stack"], d["response_bytes"] = st.Name, respMax
		r.Violate(prop+"/"+sig+"/"+st.Name, caseID, desc, d)
	}
	resp := make([]byte, respMax)
	want := make([]byte, respMax-respMax%8)
	ask := func(ctx context.Context, id uint64) (int, error) {
		req := make([]byte, 32)
		binary.LittleEndian.PutUint64(req, id)
		var n int
		var err error
		c11cancelAsker(func() { n, err = asker.Ask(ctx, resp, server.Idx, p2p.IOVec{req}) })
		return n, err
	}
	// phase 1: how long does an undisturbed ask take?
	var lats []time.Duration
	for i := 0; i < 7; i++ {
		ctx, cf := context.WithTimeout(context.Background(), 10*time.Second)
		t0 := time.Now()
		n, err := ask(ctx, uint64(1000+i))
		cf()
		if err != nil {
			continue
		}
		lats = append(lats, time.Since(t0))
		fill(want, uint64(1000+i))
		if n != len(want) || string(resp[:n]) != string(want) {
			viol("wrong-response", "an undisturbed Ask returned bytes its handler did not produce", map[string]any{"n": n})
			return
		}
	}
	if len(lats) < 3 {
		r.Inconclusive("c11 cancel-races-reply: no undisturbed ask succeeded on " + st.Name)
		return
	}
	sort.Slice(lats, func(i, j int) bool { return lats[i] < lats[j] })
	lat := lats[len(lats)/2]
	okN, errN := 0, 0
	for i := 0; i < rounds; i++ {
		r.Eval(1)
		id := uint64(5000 + i)
		for j := range resp {
			resp[j] = 0x11
		}
		// half of the cancellations aim at the moment the reply completes, the rest anywhere during the exchange
		f := 0.3 + 1.1*float64(g.Intn(10000))/10000
		if i%2 == 0 {
			f = 0.8 + 0.3*float64(g.Intn(10000))/10000
		}
		d := time.Duration(float64(lat) * f)
		ctx, cf := context.WithCancel(context.Background())
		tm := time.AfterFunc(d, cf)
		n, err := ask(ctx, id)
		tm.Stop()
		cf()
		if err == nil {
			okN++
			fill(want, id)
			if n != len(want) || string(resp[:n]) != string(want) {
				viol("wrong-response", "an Ask that raced its cancellation returned success with bytes its handler did not produce", map[string]any{"n": n, "round": i})
				return
			}
			continue
		}
		errN++
		for j := range resp {
			resp[j] = 0xC3
		}
		time.Sleep(lat/2 + time.Duration(g.Intn(300))*time.Microsecond)
		for j, c := range resp {
			if c != 0xC3 {
				viol("response-buffer-written-after-return", "Ask returned an error, the caller reused its response buffer, and the library wrote into it afterwards", map[string]any{"offset": j, "round": i, "err": fmt.Sprint(err), "cancel_after_us": d.Microseconds(), "median_latency_us": lat.Microseconds()})
				return
			}
		}
	}
	r.Count("cancel_races_reply_ok", int64(okN))
	r.Count("cancel_races_reply_cancelled", int64(errN))
	if okN > 0 && errN > 0 {
		r.NonTrivial(fmt.Sprintf("%s/cancel-races-reply/both-outcomes", st.Name))
	} else {
		r.NonTrivial(fmt.Sprintf("%s/cancel-races-reply/one-outcome", st.Name))
	}
}

// cancelRaceStacks: ask stacks with a response size that takes a while to move.
func cancelRaceStacks() []struct {
	name  string
	build func() (*Stack, error)
} {
	return []struct {
		name  string
		build func() (*Stack, error)
	}{
		{"mbapp(mem,4096/1Mi)", func() (*Stack, error) {
			return buildMbappMem(stackOpts{n: 2, innerMTU: 4096, outerMTU: 1 << 20, queueLen: 1024}), nil
		}},
		{"mbapp(mem,256/64Ki)", func() (*Stack, error) {
			return buildMbappMem(stackOpts{n: 2, innerMTU: 256, outerMTU: 1 << 16, queueLen: 1024}), nil
		}},
		{"mem", func() (*Stack, error) { return buildMem(stackOpts{n: 2, innerMTU: 1 << 16}), nil }},
		{"quic(mem)", func() (*Stack, error) { return buildQUICMem(stackOpts{n: 2}) }},
	}
}

func runCancelRacesReply(r *ev.Run, prop string) {
	for i, cs := range cancelRaceStacks() {
		if !r.Mine(1000 + i) {
			continue
		}
		caseID := "cancel-races-reply-" + cs.name
		if !r.Want(caseID) {
			continue
		}
		st, err := cs.build()
		if err != nil {
			r.Inconclusive("cannot build " + cs.name)
			continue
		}
		g := rng.New(r.Seed, prop, "cancel-races-reply", cs.name)
		c11CancelRacesReply(r, st, g, caseID, prop, pick(r, 300, 1500))
	}
}
