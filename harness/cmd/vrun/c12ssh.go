package main

import (
	"fmt"
	"net"
	"sort"
	"strings"
	"sync"
	"time"

	"go.brendoncarroll.net/p2p/s/sshswarm"
	"golang.org/x/crypto/ssh"

	"verifharness/internal/ev"
	"verifharness/internal/gor"
	"verifharness/internal/rng"
)

// c12SSHCloseDuringSetup: an sshswarm node is closed while raw ssh clients are connecting to it, each of which sends 40 tells the
// moment its handshake is done (more than the ssh library buffers for a connection nobody serves). After the node and every
// client have been closed, no goroutine of the node's connections may remain.
func c12SSHCloseDuringSetup(r *ev.Run, g *rng.R) {
	caseID := "ssh-close-during-connection-setup"
	if !r.Want(caseID) {
		return
	}
	base := libGoroutines()
	rounds := pick(r, 30, 150)
	for round := 0; round < rounds; round++ {
		r.Eval(1)
		srv, err := sshswarm.New("127.0.0.1:0", sshSigner(185))
		if err != nil {
			r.Inconclusive("c12 ssh setup: cannot start a node: " + err.Error())
			return
		}
		laddr := srv.LocalAddrs()[0]
		target := fmt.Sprintf("%s:%d", laddr.IP, laddr.Port)
		var wg sync.WaitGroup
		for k := 0; k < 4; k++ {
			wg.Add(1)
			go func(k int) {
				defer wg.Done()
				conn, err := net.DialTimeout("tcp", target, 2*time.Second)
				if err != nil {
					return
				}
				defer conn.Close()
				cfg := &ssh.ClientConfig{User: "x", HostKeyCallback: ssh.InsecureIgnoreHostKey(), Timeout: 3 * time.Second, Auth: []ssh.AuthMethod{ssh.PublicKeys(sshSigner(186 + k))}}
				sc, chans, reqs, err := ssh.NewClientConn(conn, target, cfg)
				if err != nil {
					return
				}
				go ssh.DiscardRequests(reqs)
				go func() {
					for nc := range chans {
						nc.Reject(ssh.Prohibited, "no")
					}
				}()
				for i := 0; i < 40; i++ {
					if _, _, err := sc.SendRequest("", false, []byte("tell")); err != nil {
						break
					}
				}
				time.Sleep(2 * time.Millisecond)
				sc.Close()
			}(k)
		}
		time.Sleep(time.Duration(g.Intn(4000)) * time.Microsecond)
		srv.Close()
		wg.Wait()
	}
	leftover := func() map[int]gor.G {
		out := map[int]gor.G{}
		for id, gg := range libGoroutines() {
			if _, was := base[id]; !was {
				out[id] = gg
			}
		}
		return out
	}
	var left map[int]gor.G
	for i := 0; i < 100; i++ {
		if left = leftover(); len(left) == 0 {
			break
		}
		time.Sleep(50 * time.Millisecond)
	}
	if len(left) > 0 {
		time.Sleep(time.Second)
		still := leftover()
		var texts []string
		sites := map[string]bool{}
		for id, g1 := range left {
			if g2, ok := still[id]; ok && gor.IsParked(g1.State) && gor.IsParked(g2.State) {
				site := g2.Frames[len(g2.Frames)-1]
				if lf := g2.LibFrames(); len(lf) > 0 {
					site = lf[0]
				}
				sites[site] = true
				if len(texts) < 4 {
					texts = append(texts, g2.Text)
				}
			}
		}
		if len(texts) > 0 {
			var sl []string
			for s := range sites {
				sl = append(sl, s)
			}
			sort.Strings(sl)
			r.Violate("C12/goroutine-leak/ssh", caseID, fmt.Sprintf("%d goroutines started by the swarms are still parked after every swarm of the stack was closed (the node was closed while clients were connecting and telling)", len(still)),
				map[string]any{"stack": "ssh", "sites": sl, "rounds": rounds, "stacks": strings.Join(texts, "\n\n")})
			return
		}
	}
	r.NonTrivial("ssh/closed-during-connection-setup")
}
