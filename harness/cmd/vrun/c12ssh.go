package main

import (
	"context"
	"fmt"
	"net"
	"sort"
	"strings"
	"sync"
	"sync/atomic"
	"time"

	"go.brendoncarroll.net/p2p"
	"go.brendoncarroll.net/p2p/s/sshswarm"
	"golang.org/x/crypto/ssh"

	"verifharness/internal/ev"
	"verifharness/internal/gor"
	"verifharness/internal/rng"
)

// c12SSHCloseDuringSetup: an sshswarm node is closed while raw ssh clients are connecting to it, each of which sends 40 tells the
// moment its handshake is done (more than the ssh library buffers for a connection nobody serves). After the node and every
// client have been closed, no goroutine of the node's connections may remain.
func c12SSHCloseDuringSetup(r *ev.Run, g *rng.R) {
	caseID := "ssh-close-during-connection-setup"
	if !r.Want(caseID) {
		return
	}
	base := libGoroutines()
	rounds := pick(r, 30, 150)
	for round := 0; round < rounds; round++ {
		r.Eval(1)
		srv, err := sshswarm.New("127.0.0.1:0", sshSigner(185))
		if err != nil {
			r.Inconclusive("c12 ssh setup: cannot start a node: " + err.Error())
			return
		}
		laddr := srv.LocalAddrs()[0]
		target := fmt.Sprintf("%s:%d", laddr.IP, laddr.Port)
		var wg sync.WaitGroup
		for k := 0; k < 4; k++ {
			wg.Add(1)
			go func(k int) {
				defer wg.Done()
				conn, err := net.DialTimeout("tcp", target, 2*time.Second)
				if err != nil {
					return
				}
				defer conn.Close()
				cfg := &ssh.ClientConfig{User: "x", HostKeyCallback: ssh.InsecureIgnoreHostKey(), Timeout: 3 * time.Second, Auth: []ssh.AuthMethod{ssh.PublicKeys(sshSigner(186 + k))}}
				sc, chans, reqs, err := ssh.NewClientConn(conn, target, cfg)
				if err != nil {
					return
				}
				go ssh.DiscardRequests(reqs)
				go func() {
					for nc := range chans {
						nc.Reject(ssh.Prohibited, "no")
					}
				}()
				for i := 0; i < 40; i++ {
					if _, _, err := sc.SendRequest("", false, []byte("tell")); err != nil {
						break
					}
				}
				time.Sleep(2 * time.Millisecond)
				sc.Close()
			}(k)
		}
		time.Sleep(time.Duration(g.Intn(4000)) * time.Microsecond)
		srv.Close()
		wg.Wait()
	}
	leftover := func() map[int]gor.G {
		out := map[int]gor.G{}
		for id, gg := range libGoroutines() {
			if _, was := base[id]; !was {
				out[id] = gg
			}
		}
		return out
	}
	var left map[int]gor.G
	for i := 0; i < 100; i++ {
		if left = leftover(); len(left) == 0 {
			break
		}
		time.Sleep(50 * time.Millisecond)
	}
	if len(left) > 0 {
		time.Sleep(time.Second)
		still := leftover()
		var texts []string
		sites := map[string]bool{}
		for id, g1 := range left {
			if g2, ok := still[id]; ok && gor.IsParked(g1.State) && gor.IsParked(g2.State) {
				site := g2.Frames[len(g2.Frames)-1]
				if lf := g2.LibFrames(); len(lf) > 0 {
					site = lf[0]
				}
				sites[site] = true
				if len(texts) < 4 {
					texts = append(texts, g2.Text)
				}
			}
		}
		if len(texts) > 0 {
			var sl []string
			for s := range sites {
				sl = append(sl, s)
			}
			sort.Strings(sl)
			r.Violate("C12/goroutine-leak/ssh", caseID, fmt.Sprintf("%d goroutines started by the swarms are still parked after every swarm of the stack was closed (the node was closed while clients were connecting and telling)", len(still)),
				map[string]any{"stack": "ssh", "sites": sl, "rounds": rounds, "stacks": strings.Join(texts, "\n\n")})
			return
		}
	}
	r.NonTrivial("ssh/closed-during-connection-setup")
}

// c12SSHCloseDuringDial: an sshswarm node is closed while its first Tell to a peer is still inside the outbound connection
// setup. The peer is a raw ssh server of the harness that accepts the TCP connection and holds the ssh handshake until the
// harness lets it go (before, around or after Close). The peer keeps its end open while the verdict is taken, so whatever the
// closed node still runs for that connection is its own: no goroutine with a frame of the library may stay parked.
func c12SSHCloseDuringDial(r *ev.Run, g *rng.R) {
	caseID := "ssh-close-during-outbound-setup"
	if !r.Want(caseID) {
		return
	}
	strict := func() map[int]gor.G {
		out := map[int]gor.G{}
		for _, gg := range gor.Snapshot() {
			if len(gg.LibFrames()) > 0 && !gg.Has("main.") && !gg.Has("verifharness/") {
				out[gg.ID] = gg
			}
		}
		return out
	}
	rounds := pick(r, 24, 120)
	conclusive := 0
	for round := 0; round < rounds; round++ {
		r.Eval(1)
		base := strict()
		ln, err := net.Listen("tcp", "127.0.0.1:0")
		if err != nil {
			r.Inconclusive("c12 ssh dial: cannot listen: " + err.Error())
			return
		}
		host := sshSigner(190)
		node, err := sshswarm.New("127.0.0.1:0", sshSigner(191+round%4))
		if err != nil {
			ln.Close()
			r.Inconclusive("c12 ssh dial: cannot start a node: " + err.Error())
			return
		}
		accepted := make(chan struct{})
		release := make(chan struct{})
		finish := make(chan struct{})
		var handshook atomic.Bool
		var srvWG sync.WaitGroup
		srvWG.Add(1)
		go func() {
			defer srvWG.Done()
			conn, err := ln.Accept()
			if err != nil {
				close(accepted)
				return
			}
			defer conn.Close()
			close(accepted)
			<-release
			cfg := &ssh.ServerConfig{PublicKeyCallback: func(ssh.ConnMetadata, ssh.PublicKey) (*ssh.Permissions, error) { return &ssh.Permissions{}, nil }}
			cfg.AddHostKey(host)
			conn.SetDeadline(time.Now().Add(20 * time.Second))
			sc, chans, reqs, err := ssh.NewServerConn(conn, cfg)
			if err != nil {
				return
			}
			conn.SetDeadline(time.Time{})
			handshook.Store(true)
			go ssh.DiscardRequests(reqs)
			go func() {
				for nc := range chans {
					nc.Reject(ssh.Prohibited, "no")
				}
			}()
			<-finish
			sc.Close()
		}()
		lport := ln.Addr().(*net.TCPAddr).Port
		dst := sshswarm.Addr{Fingerprint: ssh.FingerprintSHA256(host.PublicKey()), IP: node.LocalAddrs()[0].IP, Port: uint16(lport)}
		told := make(chan error, 1)
		go func() {
			ctx, cf := context.WithTimeout(context.Background(), 15*time.Second)
			defer cf()
			told <- node.Tell(ctx, dst, p2p.IOVec{[]byte("C12 outbound setup")})
		}()
		select {
		case <-accepted:
		case <-time.After(5 * time.Second):
			r.Inconclusive("c12 ssh dial: the node never connected")
			close(release)
			close(finish)
			node.Close()
			ln.Close()
			srvWG.Wait()
			continue
		}
		mode := round % 3 // 0: Close returns, then the handshake goes on; 1: both at once; 2: the handshake is let go first, Close follows within microseconds
		closed := make(chan struct{})
		switch mode {
		case 0:
			node.Close()
			close(closed)
			close(release)
		case 1:
			go func() { node.Close(); close(closed) }()
			close(release)
		case 2:
			close(release)
			time.Sleep(time.Duration(g.Intn(3000)) * time.Microsecond)
			node.Close()
			close(closed)
		}
		<-closed
		var tellErr error
		tellReturned := false
		select {
		case tellErr = <-told:
			tellReturned = true
		case <-time.After(12 * time.Second):
		}
		_ = tellErr
		leftover := func() map[int]gor.G {
			out := map[int]gor.G{}
			for id, gg := range strict() {
				if _, was := base[id]; !was {
					out[id] = gg
				}
			}
			return out
		}
		var left map[int]gor.G
		for i := 0; i < 60; i++ {
			if left = leftover(); len(left) == 0 {
				break
			}
			time.Sleep(50 * time.Millisecond)
		}
		violated := false
		if len(left) > 0 && tellReturned {
			time.Sleep(time.Second)
			still := leftover()
			var texts, sl []string
			sites := map[string]bool{}
			for id, g1 := range left {
				if g2, ok := still[id]; ok && gor.IsParked(g1.State) && gor.IsParked(g2.State) {
					sites[g2.LibFrames()[0]] = true
					if len(texts) < 4 {
						texts = append(texts, g2.Text)
					}
				}
			}
			if len(texts) > 0 {
				for s := range sites {
					sl = append(sl, s)
				}
				sort.Strings(sl)
				r.Violate("C12/goroutine-leak/ssh-outbound-setup", caseID, fmt.Sprintf("%d goroutines of a closed sshswarm node are still parked in the library while the peer keeps its end open (the node was closed while its first Tell was inside the outbound connection setup; mode %d)", len(texts), mode),
					map[string]any{"stack": "ssh", "sites": sl, "round": round, "mode": mode, "peer_completed_handshake": handshook.Load(), "stacks": strings.Join(texts, "\n\n")})
				violated = true
			}
		}
		if tellReturned {
			conclusive++
			if handshook.Load() {
				r.Count("c12_ssh_dial_handshake_completed_after_close_began", 1)
			}
		} else {
			r.Count("c12_ssh_dial_tell_not_returned", 1)
		}
		close(finish)
		ln.Close()
		srvWG.Wait()
		if violated {
			return
		}
	}
	if conclusive > 0 {
		r.NonTrivial("ssh/closed-during-outbound-setup")
	} else {
		r.Inconclusive("c12 ssh dial: no round in which the Tell returned")
	}
}
