package main

import (
	"context"
	"encoding/binary"
	"fmt"
	"sort"
	"strings"
	"sync"
	"sync/atomic"
	"time"

	"go.brendoncarroll.net/p2p"
	"go.brendoncarroll.net/p2p/verifhook"

	"verifharness/internal/ev"
	"verifharness/internal/gor"
	"verifharness/internal/rng"
)

func init() { register("C12", runC12) }

//go:noinline
func c12recv(fn func()) { fn() }

//go:noinline
func c12serve(fn func()) { fn() }

//go:noinline
func c12close(fn func()) { fn() }

//go:noinline
func c12after(fn func()) { fn() }

// libGoroutines returns the ids of goroutines that have a frame inside the library (or quic-go / x/crypto/ssh, which the
// swarms start).
func libGoroutines() map[int]gor.G {
	out := map[int]gor.G{}
	for _, g := range gor.Snapshot() {
		if len(g.LibFrames()) > 0 || g.Has("github.com/quic-go/quic-go") || g.Has("golang.org/x/crypto/ssh.") {
			if g.Has("main.") || g.Has("verifharness/") {
				continue // a harness goroutine currently inside a library call
			}
			out[g.ID] = g
		}
	}
	return out
}

func c12Payload(sender int, id uint64, epoch byte) []byte {
	b := make([]byte, 32)
	copy(b, "C12!")
	b[4] = byte(sender)
	b[5] = epoch
	binary.BigEndian.PutUint64(b[8:], id)
	for i := 16; i < 32; i++ {
		b[i] = byte(id) ^ byte(i)
	}
	return b
}

func c12Parse(b []byte) (sender int, id uint64, epoch byte, ok bool) {
	if len(b) != 32 || string(b[:4]) != "C12!" {
		return 0, 0, 0, false
	}
	return int(b[4]), binary.BigEndian.Uint64(b[8:]), b[5], true
}

func c12Case(r *ev.Run, sf stackFactory, g *rng.R, caseID string, G int, replyInCallback bool, outAsk bool, twoClosers, quietAtClose bool) {
	base := libGoroutines()
	st, err := sf.Build(stackOptsFor(sf.Name, g))
	if err != nil {
		r.Inconclusive("cannot build " + sf.Name)
		return
	}
	name := sf.Name
	target := st.Nodes[0]
	r.Eval(1)
	viol := func(sig, desc string, d map[string]any) {
		if d == nil {
			d = map[string]any{}
		}
		d["stack"], d["blocked_receivers"], d["reply_in_callback"], d["own_ask_in_flight"], d["two_concurrent_closers"] = name, G, replyInCallback, outAsk, twoClosers
		d["peers_silent_at_close"] = quietAtClose
		r.Violate("C12/"+sig+"/"+name, caseID, desc, d)
	}
	var closeReturned atomic.Bool
	var closeCalled atomic.Bool
	var delivered, deliveredFresh atomic.Int64
	var afterCloseOK atomic.Int64 // calls that returned nil although they began after Close had returned
	var lateDetail atomic.Value
	var enteredAfterClose atomic.Int64
	bg := context.Background()
	var rwg sync.WaitGroup
	recvLoop := func(lg *rng.R) {
		defer rwg.Done()
		c12recv(func() {
			for {
				startedAfterClose := closeReturned.Load()
				ran := false
				err := target.Receive(bg, func(m Msg) {
					ran = true
					if closeReturned.Load() {
						enteredAfterClose.Add(1) // counted, not judged: the callback began after Close had returned (whenever the message was made)
					}
					delivered.Add(1)
					if _, id, epoch, ok := c12Parse(m.Payload); ok && epoch == 1 {
						deliveredFresh.Add(1)
						lateDetail.CompareAndSwap(nil, fmt.Sprintf("message id %d, created after Close had returned, was handed to a receiver callback", id))
					}
					if replyInCallback && lg.Chance(1, 2) {
						tctx, cf := context.WithTimeout(bg, 2*time.Second)
						target.TellAddr(tctx, m.Src, p2p.IOVec{c12Payload(0, 0, 2)})
						cf()
					}
				})
				if err != nil {
					return
				}
				if !ran {
					viol("success-without-callback", "Receive returned nil although its callback never ran", nil)
					return
				}
				if startedAfterClose {
					afterCloseOK.Add(1)
				}
			}
		})
	}
	for i := 0; i < G; i++ {
		rwg.Add(1)
		go recvLoop(g.Fork())
	}
	var swg sync.WaitGroup
	var serveAfterCloseOK atomic.Int64
	if st.HasAsk {
		for i := 0; i < (G+1)/2; i++ {
			swg.Add(1)
			go func() {
				defer swg.Done()
				c12serve(func() {
					for {
						startedAfterClose := closeReturned.Load()
						err := target.ServeAsk(bg, func(_ context.Context, resp []byte, m Msg) int { return copy(resp, "ok") })
						if err != nil {
							return
						}
						if startedAfterClose {
							serveAfterCloseOK.Add(1)
						}
					}
				})
			}()
		}
	}
	// peers tell (and ask) the target continuously
	var paused atomic.Bool
	pctx, pcancel := context.WithCancel(bg)
	var pwg sync.WaitGroup
	var told atomic.Int64
	var overlap atomic.Bool
	for p := 1; p < len(st.Nodes); p++ {
		// peers drain what they are sent (replies from the target's callbacks), like any running application would
		p := p
		pwg.Add(1)
		go func() {
			defer pwg.Done()
			for {
				if err := st.Nodes[p].Receive(pctx, func(Msg) {}); err != nil {
					return
				}
			}
		}()
		for k := 0; k < 2; k++ {
			p, k := p, k
			pwg.Add(1)
			go func() {
				defer pwg.Done()
				var id uint64
				for pctx.Err() == nil {
					if paused.Load() {
						time.Sleep(200 * time.Microsecond)
						continue
					}
					id++
					epoch := byte(0)
					if closeReturned.Load() {
						epoch = 1 // this message did not exist when Close returned
					}
					during := closeCalled.Load() && !closeReturned.Load()
					tctx, cf := context.WithTimeout(pctx, time.Second)
					if k == 1 && st.HasAsk && id%3 == 0 {
						resp := make([]byte, 8)
						st.Nodes[p].Ask(tctx, resp, 0, p2p.IOVec{c12Payload(p, id, epoch)})
					} else if st.Nodes[p].Tell(tctx, 0, p2p.IOVec{c12Payload(p, id, epoch)}) == nil {
						told.Add(1)
					}
					cf()
					if during && closeCalled.Load() {
						overlap.Store(true)
					}
					if id%8 == 0 {
						time.Sleep(50 * time.Microsecond)
					}
				}
			}()
		}
	}
	// optionally the target itself has an Ask outstanding (its peer's handler has started and is held) when Close is called
	held, release := make(chan struct{}), make(chan struct{})
	var heldOnce, releaseOnce sync.Once
	actx, acancel := context.WithCancel(bg)
	var awg sync.WaitGroup
	outAsk = outAsk && st.HasAsk && len(st.Nodes) > 1
	if outAsk {
		for k := 0; k < 2; k++ {
			pwg.Add(1)
			go func() {
				defer pwg.Done()
				for {
					err := st.Nodes[1].ServeAsk(pctx, func(hctx context.Context, resp []byte, m Msg) int {
						if len(m.Payload) >= 4 && string(m.Payload[:4]) == "HOLD" {
							heldOnce.Do(func() { close(held) })
							select {
							case <-release:
							case <-hctx.Done():
							}
						}
						return 0
					})
					if err != nil {
						return
					}
				}
			}()
		}
		awg.Add(1)
		go func() {
			defer awg.Done()
			resp := make([]byte, 8)
			for try := 0; try < 20 && actx.Err() == nil; try++ {
				target.Ask(actx, resp, 1, p2p.IOVec{[]byte("HOLD-C12-outgoing-ask-in-flight")})
				select {
				case <-held:
					return
				default:
					time.Sleep(10 * time.Millisecond)
				}
			}
		}()
		select {
		case <-held:
			r.Count("closes_with_own_ask_in_flight", 1)
		case <-time.After(5 * time.Second):
			outAsk = false
			r.Count("own_ask_never_reached_handler", 1)
		}
	}
	releaseAsk := func() {
		releaseOnce.Do(func() { close(release) })
		acancel()
		done := make(chan struct{})
		go func() { awg.Wait(); close(done) }()
		select {
		case <-done:
		case <-time.After(5 * time.Second):
			r.Count("own_ask_left_behind", 1) // whether an outstanding Ask returns is C11's business
		}
	}
	// warm up: some deliveries (handshakes done)
	for i := 0; i < 3000 && delivered.Load() < 5 && (G > 0 || told.Load() < 50); i++ {
		time.Sleep(time.Millisecond)
	}
	warm := delivered.Load()
	time.Sleep(time.Duration(g.Intn(3000)) * time.Microsecond)
	if quietAtClose {
		// the peers fall silent shortly before Close: the receivers are then truly blocked (in the hub, the queue, the socket)
		// at the moment of Close instead of busy in callbacks; the peers resume once Close has returned
		paused.Store(true)
		// ... and what they had already sent is consumed: wait until deliveries stop
		last, still := delivered.Load(), 0
		for w := 0; w < 400 && still < 4; w++ {
			time.Sleep(time.Millisecond)
			if cur := delivered.Load(); cur == last {
				still++
			} else {
				last, still = cur, 0
			}
		}
	}
	// ---- Close
	closeDone := make(chan struct{})
	var closePanic atomic.Value
	go func() {
		defer close(closeDone)
		c12close(func() {
			defer func() {
				if p := recover(); p != nil {
					closePanic.Store(fmt.Sprint(p))
				}
			}()
			closeCalled.Store(true)
			if twoClosers {
				// a second goroutine closes at the same moment. "After Close has returned" starts with the first of the two to
				// return; both have to return.
				second := make(chan struct{})
				go func() {
					defer close(second)
					defer func() {
						if p := recover(); p != nil {
							closePanic.Store(fmt.Sprint(p))
						}
					}()
					c12close(func() { target.Close() })
					closeReturned.Store(true)
				}()
				target.Close()
				closeReturned.Store(true)
				<-second
				return
			}
			target.Close()
			closeReturned.Store(true)
		})
	}()
	tornDown := false
	teardown := func() {
		paused.Store(false)
		releaseAsk()
		pcancel()
		done := make(chan struct{})
		go func() {
			pwg.Wait()
			for _, n := range st.Nodes[1:] {
				n.Close()
			}
			if st.Teardown != nil {
				st.Teardown()
			}
			close(done)
		}()
		select {
		case <-done:
			tornDown = true
		case <-time.After(8 * time.Second):
			r.Count("teardown_blocked", 1)
			var texts []string
			for _, gg := range gor.Snapshot() {
				if gg.Has("main.c12Case") || len(gg.LibFrames()) > 0 {
					texts = append(texts, gg.Text)
				}
			}
			if len(texts) > 12 {
				texts = texts[:12]
			}
			r.Extra["teardown_blocked_"+name] = strings.Join(texts, "\n\n")
		}
	}
	if v, stacks := gor.WaitParked(closeDone, "main.c12close", 6*time.Second, time.Second); v != gor.Returned {
		if v == gor.Parked {
			// what is it waiting for? include the library goroutines that are parked in a Tell on this stack
			viol("close-blocked", "Close is parked inside the library and does not return", map[string]any{"close_stack": stacks, "delivered_before": delivered.Load()})
		} else {
			r.Inconclusive("c12 close slow on " + name)
		}
		teardown()
		return
	}
	paused.Store(false) // Close has returned: the peers talk again (what they send now was created after Close)
	if p := closePanic.Load(); p != nil {
		viol("close-panicked", "Close panicked: "+p.(string), nil)
		teardown()
		return
	}
	// (3) nothing created after Close returned may be delivered: keep the peers talking for a while
	time.Sleep(15 * time.Millisecond)
	// (1) blocked receivers must return
	rdone := make(chan struct{})
	go func() { rwg.Wait(); close(rdone) }()
	if v, stacks := gor.WaitParked(rdone, "main.c12recv", 5*time.Second, time.Second); v == gor.Parked {
		viol("receive-blocked-after-close", "Receive calls that were blocked when Close was called are still parked inside the library after Close returned", map[string]any{"stacks": trimStacks(stacks, 3)})
	} else if v == gor.Slow {
		r.Inconclusive("c12 receivers slow on " + name)
	}
	sdone := make(chan struct{})
	go func() { swg.Wait(); close(sdone) }()
	if v, stacks := gor.WaitParked(sdone, "main.c12serve", 5*time.Second, time.Second); v == gor.Parked {
		viol("serveask-blocked-after-close", "ServeAsk calls that were blocked when Close was called are still parked inside the library after Close returned", map[string]any{"stacks": trimStacks(stacks, 3)})
	} else if v == gor.Slow {
		r.Inconclusive("c12 servers slow on " + name)
	}
	if n := enteredAfterClose.Load(); n > 0 {
		r.Count("callbacks_entered_after_close_returned/"+name, n)
	}
	if d := lateDetail.Load(); d != nil {
		viol("delivered-after-close", d.(string), map[string]any{"fresh_deliveries": deliveredFresh.Load()})
	}
	if n := afterCloseOK.Load(); n > 0 {
		viol("success-after-close", fmt.Sprintf("%d Receive calls made after Close had returned reported success", n), nil)
	}
	if n := serveAfterCloseOK.Load(); n > 0 {
		viol("serveask-success-after-close", fmt.Sprintf("%d ServeAsk calls made after Close had returned reported success", n), nil)
	}
	// (5) second Close, then 50 further calls
	after := make(chan struct{})
	var afterMsg atomic.Value
	go func() {
		defer close(after)
		c12after(func() {
			defer func() {
				if p := recover(); p != nil {
					afterMsg.Store("panic: " + fmt.Sprint(p))
				}
			}()
			target.Close()
			for i := 0; i < 50; i++ {
				if err := target.Receive(bg, func(Msg) {}); err == nil {
					afterMsg.CompareAndSwap(nil, "Receive returned nil after Close")
				}
				if st.HasAsk {
					if err := target.ServeAsk(bg, func(context.Context, []byte, Msg) int { return 0 }); err == nil {
						afterMsg.CompareAndSwap(nil, "ServeAsk returned nil after Close")
					}
				}
			}
		})
	}()
	if v, stacks := gor.WaitParked(after, "main.c12after", 5*time.Second, time.Second); v == gor.Parked {
		viol("call-after-close-blocked", "a second Close, or a Receive/ServeAsk call made after Close, is parked inside the library", map[string]any{"stacks": trimStacks(stacks, 2)})
	} else if v == gor.Slow {
		r.Inconclusive("c12 post-close calls slow on " + name)
	} else if m := afterMsg.Load(); m != nil {
		sig := "success-after-close"
		if strings.HasPrefix(m.(string), "panic") {
			sig = "second-close-panicked"
		}
		viol(sig, "after Close: "+m.(string), nil)
	}
	teardown()
	// (4) goroutines started by the swarms of this stack must be gone. Only when every swarm of the stack has in fact been closed:
	// if the harness's own peers could not be stopped (on sshswarm a peer's Ask that ignores its context can hold one), their
	// swarms are still open and their goroutines are not leaks.
	if !tornDown {
		r.Inconclusive("c12 leak check skipped: the peers of " + name + " could not be closed")
		return
	}
	var leaked []gor.G
	for i := 0; i < 100; i++ {
		leaked = leaked[:0]
		for id, gg := range libGoroutines() {
			if _, was := base[id]; !was {
				leaked = append(leaked, gg)
			}
		}
		if len(leaked) == 0 {
			break
		}
		time.Sleep(50 * time.Millisecond)
	}
	if len(leaked) > 0 {
		// confirm they are parked (not just slow to exit)
		time.Sleep(time.Second)
		still := libGoroutines()
		var texts []string
		sites := map[string]bool{}
		for _, gg := range leaked {
			if g2, ok := still[gg.ID]; ok && gor.IsParked(g2.State) {
				lf := g2.LibFrames()
				site := "?"
				if len(lf) > 0 {
					site = lf[0]
				} else if len(g2.Frames) > 0 {
					site = g2.Frames[len(g2.Frames)-1]
				}
				sites[site] = true
				if len(texts) < 4 {
					texts = append(texts, g2.Text)
				}
			}
		}
		if len(texts) > 0 {
			var sl []string
			for s := range sites {
				sl = append(sl, s)
			}
			sort.Strings(sl)
			viol("goroutine-leak", fmt.Sprintf("%d goroutines started by the swarms are still parked after every swarm of the stack was closed", len(texts)), map[string]any{"sites": sl, "stacks": strings.Join(texts, "\n\n")})
		}
	}
	if warm > 0 || (G == 0 && told.Load() > 0) {
		cls := "quiet"
		if overlap.Load() {
			cls = "overlapping-traffic"
		}
		r.NonTrivial(fmt.Sprintf("%s/G=%d/reply=%v/ownask=%v/%s", name, G, replyInCallback, outAsk, cls))
	}
	r.Count("delivered_before_close", warm)
	r.Count("told", told.Load())
	r.Sample(map[string]any{"case": caseID, "stack": name, "blocked_receivers": G, "reply_in_callback": replyInCallback, "own_ask_in_flight": outAsk, "delivered_before_close": warm, "told_by_peers": told.Load(), "traffic_overlapped_close": overlap.Load()})
}

func trimStacks(s string, n int) string {
	parts := strings.Split(s, "\n\n")
	if len(parts) > n {
		parts = append(parts[:n], fmt.Sprintf("... and %d more goroutines", len(parts)-n))
	}
	return strings.Join(parts, "\n\n")
}

func runC12(r *ev.Run) {
	r.Rule = "per stack: G in {1,4,16} goroutines blocked in Receive (and ServeAsk) with non-expiring contexts on one node while two peers tell/ask it continuously, optionally replying from inside the callbacks, optionally with an Ask of its own outstanding (the peer's handler has started and is held); Close at a seeded moment, in a third of the cases from two goroutines at once, in a third after the peers have fallen silent (receivers truly blocked) (seeded delays at hub/queue hook points); monitors: Close itself, the blocked calls, a second Close and 50 further calls must not stay parked (two goroutine snapshots 1 s apart) and must not report success; messages created after Close returned (epoch flag set by the harness after Close returned) must never reach a callback; after closing every swarm of the stack no goroutine started by them may remain; an sshswarm node closed while four raw ssh clients connect and send 40 tells each the moment their handshake is done (30-150 rounds): no goroutine of its connections may remain; an sshswarm node closed while its first Tell to a peer is inside the outbound connection setup (the peer, a raw ssh server, holds the handshake until Close has returned / is running / is about to be called; 24-120 rounds): while the peer keeps its end open no goroutine of the closed node may stay parked in the library; channel swarms of one multiplexer (five kinds) opened, closed, re-opened under the same channel id and closed again through stale handles in 40-400 seeded histories, four calls blocked in Receive/ServeAsk at the first Close of every handle: all of them and two calls made afterwards must return a non-nil error. non-trivial = deliveries were flowing when Close was called; distinct = (stack, G, reply-in-callback, traffic overlap)"
	g := rng.New(r.Seed, "C12", fmt.Sprint(r.Batch))
	if r.Mine(0) {
		c12SSHCloseDuringSetup(r, rng.New(r.Seed, "C12-ssh-setup")) // first in its batch: nothing else has left goroutines behind yet
		c12SSHCloseDuringDial(r, rng.New(r.Seed, "C12-ssh-dial"))
	}
	if r.Mine(1) {
		c12MuxLifecycle(r, rng.New(r.Seed, "C12-mux-lifecycle"))
	}
	idx := 0
	for _, sf := range append(allStacks(), closeErrStacks()...) {
		if sf.Heavy && !isThorough(r) && sf.Name != "ssh" && sf.Name != "quic(mem)" && sf.Name != "p2pke(udp)" {
			continue
		}
		idx++
		if hg := g.Fork(); r.Mine(idx) && r.Want("held-callback-"+sf.Name) {
			c12HeldCallback(r, sf, hg, "held-callback-"+sf.Name)
		}
		for _, G := range []int{0, 1, 4, 16} {
			for _, reply := range []bool{false, true} {
				reps := pick(r, 1, 5)
				for rep := 0; rep < reps; rep++ {
					idx++
					cg := g.Fork()
					if !r.Mine(idx) {
						continue
					}
					caseID := fmt.Sprintf("%s-G%d-reply%v-%d", sf.Name, G, reply, rep)
					if !r.Want(caseID) {
						continue
					}
					armHooks(cg, []uint16{verifhook.TellHubReceiveEnter, verifhook.TellHubReceiveBlock, verifhook.TellHubDeliver, verifhook.AskHubServe, verifhook.AskHubDeliver, verifhook.QueueDeliverMid, verifhook.QueueReceiveAfterFn})
					c12Case(r, sf, cg, caseID, G, reply, cg.Chance(1, 2), idx%3 == 1, idx%3 == 0)
					verifhook.DisarmAll()
				}
			}
		}
	}
}
