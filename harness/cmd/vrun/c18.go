package main

import (
	"fmt"
	"sort"

	"verifharness/internal/ev"
	"verifharness/internal/rng"
)

func init() { register("C18", runC18) }

// small universe over a 1-byte locus: covers every bucket 0..8, incl. key==locus, the empty key and
// 2-byte keys sharing the locus byte.
func smallUniverse(locus byte) []string {
	u := []string{}
	for b := 0; b < 8; b++ {
		// a key whose first differing bit from the locus is bit b (bucket b)
		u = append(u, string([]byte{locus ^ (0x80 >> uint(b))}))
	}
	u = append(u, string([]byte{locus}))              // bucket 8
	u = append(u, "")                                 // bucket 8 (short key)
	u = append(u, string([]byte{locus, 0x00}))        // bucket 8, longer key
	u = append(u, string([]byte{locus ^ 0x80, 0x55})) // bucket 0, second member
	u = append(u, string([]byte{locus ^ 0xC0}))       // bucket 0, third member
	u = append(u, string([]byte{locus ^ 0x40, 0xff})) // bucket 1, second member
	u = append(u, string([]byte{locus ^ 0x01, 0x01})) // bucket 7, second member
	return u
}

type cacheCfg struct {
	locus       []byte
	max, minPer int
}

func smallConfigs(locus byte) []cacheCfg {
	var out []cacheCfg
	for max := 0; max <= 10; max++ {
		for minPer := 0; minPer*8 <= max; minPer++ {
			out = append(out, cacheCfg{[]byte{locus}, max, minPer})
		}
	}
	return out
}

// bfsCache explores op sequences breadth first by re-execution, de-duplicating on (model state, clock).
// visit is called once per distinct reached state (with a live SUT positioned at that state).
func bfsCache(cfg cacheCfg, universe []string, depth, maxStates int, viol func(*cacheSUT) violFn, checkOps bool, visit func(s *cacheSUT, d int)) (states, transitions int) {
	type node struct{ ops []kop }
	replay := func(ops []kop) *cacheSUT {
		s := newCacheSUT(cfg.locus, cfg.max, cfg.minPer)
		for _, o := range ops {
			s.apply(o, viol(s))
		}
		return s
	}
	clockOf := func(ops []kop) int {
		c := 0
		for _, o := range ops {
			if o.T > c {
				c = o.T
			}
		}
		return c
	}
	seen := map[uint64]bool{}
	root := newCacheSUT(cfg.locus, cfg.max, cfg.minPer)
	seen[root.cm.hash(0)] = true
	frontier := []node{{}}
	states = 1
	if visit != nil {
		visit(root, 0)
	}
	for d := 1; d <= depth && len(frontier) > 0; d++ {
		var next []node
		for _, n := range frontier {
			clk := clockOf(n.ops)
			var alphabet []kop
			for _, k := range universe {
				alphabet = append(alphabet,
					kop{Kind: "put", Key: k, T: clk + 1, TTL: 0},
					kop{Kind: "put", Key: k, T: clk + 1, TTL: 1},
					kop{Kind: "put", Key: k, T: clk, TTL: 5},
					kop{Kind: "update", Key: k, T: clk + 1, TTL: 2},
					kop{Kind: "delete", Key: k, T: clk},
				)
			}
			alphabet = append(alphabet, kop{Kind: "expire", T: clk + 1}, kop{Kind: "expire", T: clk + 3}, kop{Kind: "expire", T: clk + 7})
			for _, o := range alphabet {
				ops := append(append([]kop{}, n.ops...), o)
				s := replay(ops)
				transitions++
				if s.dead {
					continue
				}
				// a get after every transition keeps lookups in the loop without widening the alphabet
				if checkOps {
					s.apply(kop{Kind: "get", Key: o.Key, T: o.T}, viol(s))
					s.ops = s.ops[:len(s.ops)-1]
				}
				h := s.cm.hash(clockOf(ops))
				if seen[h] {
					continue
				}
				seen[h] = true
				states++
				if visit != nil {
					visit(s, d)
				}
				if states >= maxStates {
					return states, transitions
				}
				next = append(next, node{ops})
			}
		}
		frontier = next
	}
	return states, transitions
}

// genRandomOp draws the next op of a long random sequence.
func genRandomOp(g *rng.R, keys []string, clock *int) kop {
	adv := g.Intn(3) // ties are common
	*clock += adv
	k := rng.Pick(g, keys)
	switch x := g.Intn(20); {
	case x < 9:
		o := kop{Kind: "put", Key: k, T: *clock, TTL: rng.Pick(g, []int{0, 0, 1, 2, 5, 40})}
		if g.Chance(1, 60) {
			o.Zero = true
		}
		return o
	case x < 12:
		return kop{Kind: "update", Key: k, T: *clock, TTL: rng.Pick(g, []int{0, 1, 3, 9})}
	case x < 15:
		return kop{Kind: "delete", Key: k}
	case x < 17:
		return kop{Kind: "expire", T: *clock + g.Intn(8)}
	default:
		return kop{Kind: "get", Key: k, T: *clock}
	}
}

// genKeyPool makes keys with engineered shared prefixes relative to the locus.
func genKeyPool(g *rng.R, locus []byte, n int) []string {
	keys := make([]string, 0, n)
	seen := map[string]bool{}
	add := func(k []byte) {
		if !seen[string(k)] {
			seen[string(k)] = true
			keys = append(keys, string(k))
		}
	}
	for len(keys) < n {
		k := append([]byte{}, locus...)
		switch g.Intn(8) {
		case 0: // fully random
			g.Fill(k)
		case 1: // equal to locus
		case 2, 3, 4: // shares exactly p bits
			p := g.Intn(len(k) * 8)
			k[p/8] ^= 0x80 >> uint(p%8)
			// randomise the tail
			for j := p/8 + 1; j < len(k); j++ {
				k[j] = byte(g.Intn(256))
			}
			if p%8 != 7 {
				k[p/8] ^= byte(g.Intn(1 << uint(7-p%8)))
			}
		case 5: // shorter key
			k = k[:g.Intn(len(k)+1)]
			if len(k) > 0 && g.Bool() {
				k[len(k)-1] ^= byte(1 << uint(g.Intn(8)))
			}
		case 6: // longer key
			k = append(k, g.Bytes(1+g.Intn(4))...)
			if g.Bool() {
				p := g.Intn(len(locus) * 8)
				k[p/8] ^= 0x80 >> uint(p%8)
			}
		default: // differs in the first byte (far buckets)
			k[0] ^= byte(1 + g.Intn(255))
		}
		add(k)
	}
	return keys
}

func runC18(r *ev.Run) {
	r.Rule = "exhaustive: BFS over op sequences {put(ttl 0/1/5), update, delete, expire(+1/+3/+7)} on a 1-byte locus and a 15-key universe covering buckets 0..8, for every constructor-accepted (max<=10, minPerBucket), de-duplicated on (model state, clock); random: long sequences on 32-byte (and 2-byte) loci with engineered shared prefixes, ties, zero TTL and the zero time; after every op Count/VerifCheck/IsFull/full enumeration/Get agree with a reference map and eviction victims come from the farthest non-protected bucket. DHTNode level: peer table and data store kept below capacity, peers re-added with different info and values re-put, every lookup path (GetPeer, ListNodeInfos, HandleFindNode, Get, HandleGet) must return the latest stored value. non-trivial = sequence reached capacity (>=1 eviction) or expired >=1 entry; distinct = model-state hash"
	r.Assumptions = []string{
		"Delete's return value for absent keys is not asserted",
		"which entry inside the eviction bucket is chosen is not asserted",
		"when no bucket exceeds its minimum yet the count exceeds max, any reported victim is accepted",
	}
	for i := 0; i < pick(r, 4, 40); i++ {
		caseID := fmt.Sprintf("dhtnode-%d-%d", r.Batch, i)
		if r.Want(caseID) {
			c18DHTNode(r, rng.New(r.Seed, "C18", "dhtnode", fmt.Sprint(r.Batch), fmt.Sprint(i)), caseID)
		}
	}
	// --- exhaustive part: configurations are dealt to batches
	locus := byte(0xA5)
	uni := smallUniverse(locus)
	depth := pick(r, 3, 4)
	maxStates := pick(r, 12000, 60000)
	cfgs := smallConfigs(locus)
	totalStates, totalTrans := 0, 0
	for ci, cfg := range cfgs {
		if !r.Mine(ci) {
			continue
		}
		caseID := fmt.Sprintf("bfs-max%d-min%d", cfg.max, cfg.minPer)
		if !r.Want(caseID) {
			continue
		}
		// restrict the universe so that depth-limited sequences can reach capacity
		u := uni
		st, tr := bfsCache(cfg, u, depth, maxStates, func(s *cacheSUT) violFn { return mkViol(r, caseID) }, true, func(s *cacheSUT, d int) {
			if s.evicts > 0 || s.expired > 0 {
				r.NonTrivial(fmt.Sprintf("bfs/%d/%d/%x", cfg.max, cfg.minPer, s.cm.hash(0)))
			}
		})
		totalStates += st
		totalTrans += tr
		r.Eval(int64(tr))
	}
	r.Count("bfs_states", int64(totalStates))
	r.Count("bfs_transitions", int64(totalTrans))
	// capacity-reaching exhaustive variant: tiny universes so that depth d overflows small caches
	for ci, cfg := range cfgs {
		if !r.Mine(ci) || cfg.max > 3 {
			continue
		}
		caseID := fmt.Sprintf("bfs-small-max%d-min%d", cfg.max, cfg.minPer)
		if !r.Want(caseID) {
			continue
		}
		u := []string{uni[0], uni[11], uni[1], uni[8], uni[9]}
		st, tr := bfsCache(cfg, u, pick(r, 5, 6), maxStates, func(s *cacheSUT) violFn { return mkViol(r, caseID) }, true, func(s *cacheSUT, d int) {
			if s.evicts > 0 || s.expired > 0 {
				r.NonTrivial(fmt.Sprintf("bfs-small/%d/%d/%x", cfg.max, cfg.minPer, s.cm.hash(0)))
			}
		})
		r.Count("bfs_states", int64(st))
		r.Count("bfs_transitions", int64(tr))
		r.Eval(int64(tr))
	}
	// --- random part
	nSeq := pick(r, 120, 1500)
	seqLen := pick(r, 1500, 6000)
	g := rng.New(r.Seed, "C18", "random", fmt.Sprint(r.Batch))
	for i := 0; i < nSeq; i++ {
		caseID := fmt.Sprintf("rand-%d-%d", r.Batch, i)
		cg := g.Fork()
		if !r.Want(caseID) {
			continue
		}
		var cfg cacheCfg
		switch cg.Intn(5) {
		case 0: // 32-byte locus, minPerBucket 0
			cfg = cacheCfg{cg.Bytes(32), cg.Range(1, 40), 0}
		case 1: // 32-byte locus, minPerBucket 1, max at the constructor's lower bound or above
			cfg = cacheCfg{cg.Bytes(32), 256 + cg.Intn(30), 1}
		case 2: // 2-byte locus, tight
			mp := cg.Intn(3)
			cfg = cacheCfg{cg.Bytes(2), 16*mp + cg.Intn(6), mp}
		case 3: // 1-byte locus at the exact lower bound: every bucket can sit at its minimum
			mp := 1 + cg.Intn(2)
			cfg = cacheCfg{cg.Bytes(1), 8 * mp, mp}
		default:
			cfg = cacheCfg{cg.Bytes(4), cg.Range(0, 64), 0}
		}
		nKeys := cfg.max*2 + 8
		if nKeys > 700 {
			nKeys = 700
		}
		var keys []string
		if len(cfg.locus) == 1 {
			keys = smallUniverse(cfg.locus[0])
			keys = append(keys, genKeyPool(cg, cfg.locus, 12)...)
		} else {
			keys = genKeyPool(cg, cfg.locus, nKeys)
		}
		s := newCacheSUT(cfg.locus, cfg.max, cfg.minPer)
		clock := 0
		for j := 0; j < seqLen && !s.dead; j++ {
			s.apply(genRandomOp(cg, keys, &clock), mkViol(r, caseID))
			r.Eval(1)
			if (s.evicts > 0 || s.expired > 0) && j%97 == 0 {
				r.NonTrivial(fmt.Sprintf("rand/%d/%x", len(cfg.locus), s.cm.hash(0)))
			}
		}
		r.Count("random_evictions", int64(s.evicts))
		r.Count("random_expired", int64(s.expired))
		if i == 0 {
			ops := opsStrings(s.ops)
			if len(ops) > 12 {
				ops = ops[len(ops)-12:]
			}
			lens := s.cm.bucketLens()
			bl := []string{}
			for b, n := range lens {
				bl = append(bl, fmt.Sprintf("%d:%d", b, n))
			}
			sort.Strings(bl)
			r.Sample(map[string]any{"locus_len": len(cfg.locus), "max": cfg.max, "min_per_bucket": cfg.minPer, "last_ops": ops, "final_bucket_lens": bl, "evictions": s.evicts, "expired": s.expired})
		}
	}
	if isThorough(r) {
		runC18Concurrent(r)
	}
}
