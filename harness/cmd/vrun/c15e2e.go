package main

import (
	"context"
	"encoding/binary"
	"fmt"
	"sync"
	"sync/atomic"
	"time"

	"go.brendoncarroll.net/p2p"
	"go.brendoncarroll.net/p2p/p/p2pmux"
	"go.brendoncarroll.net/p2p/s/memswarm"

	"verifharness/internal/ev"
	"verifharness/internal/rng"
)

type memAddr = memswarm.Addr

// openers for every mux kind on a memswarm node, as (tell swarm, optional ask swarm) per channel.
type muxOpener struct {
	name string
	// ids returns a confusable channel set
	ids  func(g *rng.R) []any
	open func(x p2p.AskSwarm[memAddr]) func(c any) (p2p.Swarm[memAddr], p2p.AskSwarm[memAddr])
}

func muxOpeners() []muxOpener {
	strIDs := func(g *rng.R) []any {
		pool := []any{"", "a", "ab", "abc", "b", "\x01a", "\x00", "a\x00", string([]byte{1}), string([]byte{2, 'a', 'b'}), string(g.Bytes(127)), string(g.Bytes(128)), string(g.Bytes(300))}
		return pickSet(g, pool)
	}
	u64IDs := func(g *rng.R) []any {
		pool := []any{uint64(0), uint64(1), uint64(127), uint64(128), uint64(255), uint64(256), uint64(1 << 14), uint64(1<<32 - 1), uint64(1 << 32), uint64(1 << 63), uint64(1<<64 - 1), uint64(0x0100), uint64(0x8000)}
		return pickSet(g, pool)
	}
	u32IDs := func(g *rng.R) []any {
		pool := []any{uint32(0), uint32(1), uint32(127), uint32(128), uint32(255), uint32(256), uint32(1 << 16), uint32(1<<32 - 1), uint32(0x01000000), uint32(0x00000100)}
		return pickSet(g, pool)
	}
	u16IDs := func(g *rng.R) []any {
		pool := []any{uint16(0), uint16(1), uint16(127), uint16(128), uint16(255), uint16(256), uint16(0x0100), uint16(0xffff), uint16(0x8000)}
		return pickSet(g, pool)
	}
	return []muxOpener{
		{"string", strIDs, func(x p2p.AskSwarm[memAddr]) func(c any) (p2p.Swarm[memAddr], p2p.AskSwarm[memAddr]) {
			m := p2pmux.NewStringAskMux[memAddr](x)
			return func(c any) (p2p.Swarm[memAddr], p2p.AskSwarm[memAddr]) { s := m.Open(c.(string)); return s, s }
		}},
		{"string-tellonly", strIDs, func(x p2p.AskSwarm[memAddr]) func(c any) (p2p.Swarm[memAddr], p2p.AskSwarm[memAddr]) {
			m := p2pmux.NewStringMux[memAddr](x)
			return func(c any) (p2p.Swarm[memAddr], p2p.AskSwarm[memAddr]) { return m.Open(c.(string)), nil }
		}},
		{"varint", u64IDs, func(x p2p.AskSwarm[memAddr]) func(c any) (p2p.Swarm[memAddr], p2p.AskSwarm[memAddr]) {
			m := p2pmux.NewVarintAskMux[memAddr](x)
			return func(c any) (p2p.Swarm[memAddr], p2p.AskSwarm[memAddr]) { s := m.Open(c.(uint64)); return s, s }
		}},
		{"uint16", u16IDs, func(x p2p.AskSwarm[memAddr]) func(c any) (p2p.Swarm[memAddr], p2p.AskSwarm[memAddr]) {
			m := p2pmux.NewUint16AskMux[memAddr](x)
			return func(c any) (p2p.Swarm[memAddr], p2p.AskSwarm[memAddr]) { s := m.Open(c.(uint16)); return s, s }
		}},
		{"uint32", u32IDs, func(x p2p.AskSwarm[memAddr]) func(c any) (p2p.Swarm[memAddr], p2p.AskSwarm[memAddr]) {
			m := p2pmux.NewUint32AskMux[memAddr](x)
			return func(c any) (p2p.Swarm[memAddr], p2p.AskSwarm[memAddr]) { s := m.Open(c.(uint32)); return s, s }
		}},
		{"uint64", u64IDs, func(x p2p.AskSwarm[memAddr]) func(c any) (p2p.Swarm[memAddr], p2p.AskSwarm[memAddr]) {
			m := p2pmux.NewUint64AskMux[memAddr](x)
			return func(c any) (p2p.Swarm[memAddr], p2p.AskSwarm[memAddr]) { s := m.Open(c.(uint64)); return s, s }
		}},
	}
}

func pickSet(g *rng.R, pool []any) []any {
	n := g.Range(2, 8)
	if n > len(pool) {
		n = len(pool)
	}
	perm := g.Perm(len(pool))
	out := make([]any, 0, n)
	seen := map[string]bool{}
	for _, i := range perm {
		k := fmt.Sprintf("%q", fmt.Sprint(pool[i]))
		if seen[k] || len(out) >= n {
			continue
		}
		seen[k] = true
		out = append(out, pool[i])
	}
	return out
}

// e2ePayload: magic | case | channel index | seq | filler
func e2ePayload(caseN uint32, ch, seq int, fill []byte) []byte {
	b := make([]byte, 0, 16+len(fill))
	b = append(b, 'C', '1', '5', '!')
	b = binary.BigEndian.AppendUint32(b, caseN)
	b = binary.BigEndian.AppendUint32(b, uint32(ch))
	b = binary.BigEndian.AppendUint32(b, uint32(seq))
	return append(b, fill...)
}

func runC15E2E(r *ev.Run) {
	nCases := pick(r, 12, 150)
	ops := muxOpeners()
	for oi, op := range ops {
		g := rng.New(r.Seed, "C15e2e", op.name, fmt.Sprint(r.Batch))
		for ci := 0; ci < nCases; ci++ {
			caseID := fmt.Sprintf("e2e-%s-%d-%d", op.name, r.Batch, ci)
			cg := g.Fork()
			if !r.Want(caseID) {
				continue
			}
			c15e2eCase(r, op, cg, caseID, uint32(oi*100000+ci))
		}
	}
}

func c15e2eCase(r *ev.Run, op muxOpener, g *rng.R, caseID string, caseN uint32) {
	// the transport's receive buffers are recycled: with a short queue a layer that keeps a reference past the callback gets it
	// overwritten by the next arrivals
	qlen := []int{512, 4, 2, 8}[int(caseN)%4]
	realm := memswarm.NewRealm(memswarm.WithQueueLen(qlen))
	a, b := realm.NewSwarm(), realm.NewSwarm()
	openA, openB := op.open(a), op.open(b)
	ids := op.ids(g)
	// the last id is opened at the sender only: nobody at b may see its traffic
	unopened := len(ids) - 1
	type chanEnd struct {
		tell p2p.Swarm[memAddr]
		ask  p2p.AskSwarm[memAddr]
	}
	sendEnds := make([]chanEnd, len(ids))
	recvEnds := make([]chanEnd, len(ids))
	for i, id := range ids {
		t, k := openA(id)
		sendEnds[i] = chanEnd{t, k}
		if i != unopened {
			t2, k2 := openB(id)
			recvEnds[i] = chanEnd{t2, k2}
		}
	}
	ctx, cancel := context.WithCancel(context.Background())
	var wg sync.WaitGroup
	var mu sync.Mutex
	ledger := map[string]int{} // payload -> channel index
	var received, sent atomic.Int64
	perChan := 6 + g.Intn(10)
	// receivers (in a third of the cases they only start once the senders are well under way: messages wait in the mux)
	lateRecv := time.Duration(0)
	if caseN%3 == 1 {
		lateRecv = 3 * time.Millisecond
	}
	for i := range ids {
		if i == unopened {
			continue
		}
		i := i
		for w := 0; w < 2; w++ {
			wg.Add(1)
			go func() {
				defer wg.Done()
				time.Sleep(lateRecv)
				for {
					err := recvEnds[i].tell.Receive(ctx, func(m p2p.Message[memAddr]) {
						pl := string(m.Payload)
						mu.Lock()
						want, ok := ledger[pl]
						mu.Unlock()
						received.Add(1)
						switch {
						case !ok:
							r.Violate("C15/e2e-unknown-payload/"+op.name, caseID, "a muxed swarm delivered a payload nobody told on any channel (altered)", map[string]any{"recv_chan": fmt.Sprintf("%q", fmt.Sprint(ids[i])), "payload": fmt.Sprintf("%x", m.Payload)})
						case want != i:
							r.Violate("C15/e2e-cross-channel/"+op.name, caseID, "a message told on one channel was delivered to the swarm of another channel", map[string]any{"told_on": fmt.Sprintf("%q", fmt.Sprint(ids[want])), "delivered_to": fmt.Sprintf("%q", fmt.Sprint(ids[i])), "unopened": want == unopened})
						default:
							r.Count("e2e_tells_delivered", 1)
						}
					})
					if err != nil {
						return
					}
				}
			}()
		}
		if recvEnds[i].ask != nil {
			wg.Add(1)
			go func() {
				defer wg.Done()
				for {
					err := recvEnds[i].ask.ServeAsk(ctx, func(_ context.Context, resp []byte, m p2p.Message[memAddr]) int {
						pl := string(m.Payload)
						mu.Lock()
						want, ok := ledger[pl]
						mu.Unlock()
						if !ok {
							r.Violate("C15/e2e-unknown-payload/"+op.name, caseID, "an ask handler saw a request nobody sent (altered)", map[string]any{"payload": fmt.Sprintf("%x", m.Payload)})
						} else if want != i {
							r.Violate("C15/e2e-cross-channel/"+op.name, caseID, "an ask sent on one channel was served by the swarm of another channel", map[string]any{"asked_on": fmt.Sprintf("%q", fmt.Sprint(ids[want])), "served_by": fmt.Sprintf("%q", fmt.Sprint(ids[i]))})
						}
						// response names the serving channel
						out := append([]byte(fmt.Sprintf("R%d:", i)), m.Payload...)
						return copy(resp, out)
					})
					if err != nil {
						return
					}
				}
			}()
		}
	}
	// senders
	dst := b.LocalAddrs()[0]
	var swg sync.WaitGroup
	// several goroutines send on the same channel at once: framing must not share state between calls
	const sendersPerChan = 3
	for i := range ids {
		for w := 0; w < sendersPerChan; w++ {
			i, w := i, w
			sg := g.Fork()
			swg.Add(1)
			go func() {
				defer swg.Done()
				for s := w * 1000; s < w*1000+perChan; s++ {
					fill := sg.Bytes(sg.Intn(40))
					if sg.Chance(1, 8) {
						fill = nil
					}
					pl := e2ePayload(caseN, i, s, fill)
					mu.Lock()
					ledger[string(pl)] = i
					mu.Unlock()
					if sendEnds[i].ask != nil && sg.Chance(1, 3) && i != unopened {
						resp := make([]byte, 256)
						actx, cf := context.WithTimeout(ctx, 5*time.Second)
						n, err := sendEnds[i].ask.Ask(actx, resp, dst, splitVec(sg, pl))
						cf()
						if err == nil {
							want := append([]byte(fmt.Sprintf("R%d:", i)), pl...)
							if string(resp[:n]) != string(want) {
								r.Violate("C15/e2e-ask-response/"+op.name, caseID, "ask on a channel returned a response not produced by that channel's handler for this request", map[string]any{"chan": fmt.Sprintf("%q", fmt.Sprint(ids[i])), "got": fmt.Sprintf("%q", resp[:n]), "want": fmt.Sprintf("%q", want)})
							} else {
								r.Count("e2e_asks_answered", 1)
							}
						}
						continue
					}
					if err := sendEnds[i].tell.Tell(ctx, dst, splitVec(sg, pl)); err == nil && i != unopened {
						sent.Add(1)
					}
				}
			}()
		}
	}
	swg.Wait()
	// asks on the channel nobody opened at b, back to back, right after an ask on an open channel (and once more after): whatever
	// the destination remembers about the previous ask must not route the next one; only the handlers' oracle judges (a handler
	// of another channel seeing the request), errors and timeouts of the asks themselves are expected
	if sendEnds[unopened].ask != nil && len(ids) > 1 && caseN%2 == 0 {
		seqAsk := func(i, s int, d time.Duration) {
			pl := e2ePayload(caseN, i, 900000+s, nil)
			mu.Lock()
			ledger[string(pl)] = i
			mu.Unlock()
			actx, cf := context.WithTimeout(ctx, d)
			n, err := sendEnds[i].ask.Ask(actx, make([]byte, 256), dst, p2p.IOVec{pl})
			cf()
			if err == nil && i == unopened {
				r.Violate("C15/e2e-cross-channel/"+op.name, caseID, "an ask on a channel that is not open at the destination was answered", map[string]any{"asked_on": fmt.Sprintf("%q", fmt.Sprint(ids[i])), "n": n})
			}
			r.Count("e2e_sequential_asks", 1)
		}
		open0 := g.Intn(len(ids) - 1)
		seqAsk(open0, 0, 2*time.Second)
		seqAsk(unopened, 1, 40*time.Millisecond)
		seqAsk(unopened, 2, 40*time.Millisecond)
		seqAsk(unopened, 3, 40*time.Millisecond)
		seqAsk(open0, 4, 2*time.Second)
	}
	// wait for deliveries to drain: until everything accepted was received, or quiescence
	deadline := time.Now().Add(3 * time.Second)
	last := received.Load()
	quiet := 0
	for time.Now().Before(deadline) && received.Load() < sent.Load() {
		time.Sleep(5 * time.Millisecond)
		if cur := received.Load(); cur == last {
			quiet++
			if quiet > 100 {
				break
			}
		} else {
			last, quiet = cur, 0
		}
	}
	cancel()
	for i := range ids {
		sendEnds[i].tell.Close()
		if i != unopened {
			recvEnds[i].tell.Close()
		}
	}
	a.Close()
	b.Close()
	wg.Wait()
	r.Eval(1)
	if received.Load() > 0 {
		r.NonTrivial(fmt.Sprintf("e2e/%s/chans=%d", op.name, len(ids)))
	}
	r.Count("e2e_tells_sent", sent.Load())
	if caseN%100000 == 0 {
		idl := []string{}
		for _, id := range ids {
			s := fmt.Sprintf("%q", fmt.Sprint(id))
			if len(s) > 24 {
				s = s[:24] + "..."
			}
			idl = append(idl, s)
		}
		r.Sample(map[string]any{"kind": "e2e/" + op.name, "channels": idl, "per_channel": perChan, "received": received.Load()})
	}
}
