package main

import (
	"context"
	"fmt"
	"strconv"
	"sync"

	"go.brendoncarroll.net/p2p"
	"go.brendoncarroll.net/p2p/f/x509"
)

// wire: an in-process transport whose delivery the harness schedules. Tell captures; Receive waits on an inbox that only
// the scheduler (or, in prompt mode, Tell itself) feeds. It honours ctx and Close exactly and copies buffers on Tell.

type wireAddr struct{ N int }

func (a wireAddr) MarshalText() ([]byte, error) { return []byte("w" + strconv.Itoa(a.N)), nil }
func (a wireAddr) String() string               { return "w" + strconv.Itoa(a.N) }

type wireMsg struct {
	Src, Dst wireAddr
	Bytes    []byte
	Seq      int
	Tag      string // label set by the harness while capturing
}

type wireNet struct {
	mu     sync.Mutex
	mtu    int
	nodes  map[int]*wireNode
	pool   []*wireMsg
	prompt bool                   // forward every Tell immediately
	route  func(m *wireMsg) bool  // if set: decides per message whether to forward (true) or capture only
	tag    string                 // label for messages captured now
	fail   func(m *wireMsg) error // if set and it returns an error, Tell fails with it and the message is not captured
}

func newWireNet(mtu int) *wireNet {
	return &wireNet{mtu: mtu, nodes: map[int]*wireNode{}}
}

type wireNode struct {
	net       *wireNet
	addr      wireAddr
	inbox     chan p2p.Message[wireAddr]
	closed    chan struct{}
	closeOnce sync.Once
	pub       x509.PublicKey
}

func (n *wireNet) node(i int) *wireNode {
	n.mu.Lock()
	defer n.mu.Unlock()
	if x, ok := n.nodes[i]; ok {
		return x
	}
	x := &wireNode{net: n, addr: wireAddr{i}, inbox: make(chan p2p.Message[wireAddr], 1<<16), closed: make(chan struct{}), pub: keyN(200 + i).Pub}
	n.nodes[i] = x
	return x
}

// replace installs a fresh node object at address i (a new process at the same address).
func (n *wireNet) replace(i int) *wireNode {
	n.mu.Lock()
	defer n.mu.Unlock()
	x := &wireNode{net: n, addr: wireAddr{i}, inbox: make(chan p2p.Message[wireAddr], 1<<16), closed: make(chan struct{}), pub: keyN(200 + i).Pub}
	n.nodes[i] = x
	return x
}

func (n *wireNet) setTag(t string) {
	n.mu.Lock()
	n.tag = t
	n.mu.Unlock()
}

func (n *wireNet) setPrompt(p bool) {
	n.mu.Lock()
	n.prompt = p
	n.mu.Unlock()
}

// take returns and clears the captured messages.
func (n *wireNet) take() []*wireMsg {
	n.mu.Lock()
	defer n.mu.Unlock()
	p := n.pool
	n.pool = nil
	return p
}

// inject delivers bytes to node dst as if they came from src.
func (n *wireNet) inject(src, dst wireAddr, b []byte) bool {
	n.mu.Lock()
	d := n.nodes[dst.N]
	n.mu.Unlock()
	if d == nil {
		return false
	}
	select {
	case <-d.closed:
		return false
	case d.inbox <- p2p.Message[wireAddr]{Src: src, Dst: dst, Payload: append([]byte{}, b...)}:
		return true
	default:
		return false
	}
}

func (w *wireNode) Tell(ctx context.Context, dst wireAddr, v p2p.IOVec) error {
	if err := ctx.Err(); err != nil {
		return err
	}
	select {
	case <-w.closed:
		return p2p.ErrClosed
	default:
	}
	if p2p.VecSize(v) > w.net.mtu {
		return p2p.ErrMTUExceeded
	}
	m := &wireMsg{Src: w.addr, Dst: dst, Bytes: p2p.VecBytes(nil, v)}
	w.net.mu.Lock()
	if w.net.fail != nil {
		if err := w.net.fail(m); err != nil {
			w.net.mu.Unlock()
			return err
		}
	}
	m.Seq = len(w.net.pool)
	m.Tag = w.net.tag
	w.net.pool = append(w.net.pool, m)
	fwd := w.net.prompt
	if w.net.route != nil {
		fwd = w.net.route(m)
	}
	w.net.mu.Unlock()
	if fwd {
		w.net.inject(m.Src, m.Dst, m.Bytes)
	}
	return nil
}

func (w *wireNode) Receive(ctx context.Context, fn func(p2p.Message[wireAddr])) error {
	select {
	case <-ctx.Done():
		return ctx.Err()
	case <-w.closed:
		return p2p.ErrClosed
	case m := <-w.inbox:
		fn(m)
		return nil
	}
}

func (w *wireNode) LocalAddrs() []wireAddr { return []wireAddr{w.addr} }
func (w *wireNode) MTU() int               { return w.net.mtu }
func (w *wireNode) Close() error {
	w.closeOnce.Do(func() { close(w.closed) })
	return nil
}
func (w *wireNode) ParseAddr(b []byte) (wireAddr, error) {
	if len(b) < 2 || b[0] != 'w' {
		return wireAddr{}, fmt.Errorf("bad wire addr")
	}
	n, err := strconv.Atoi(string(b[1:]))
	return wireAddr{n}, err
}
func (w *wireNode) PublicKey() x509.PublicKey { return w.pub }
func (w *wireNode) LookupPublicKey(ctx context.Context, a wireAddr) (x509.PublicKey, error) {
	return keyN(200 + a.N).Pub, nil
}

var _ p2p.SecureSwarm[wireAddr, x509.PublicKey] = &wireNode{}
