package main

import (
	"context"
	"fmt"
	"strings"
	"sync"
	"time"

	"go.brendoncarroll.net/p2p/p/p2pke"

	"verifharness/internal/ev"
	"verifharness/internal/rng"
)

func init() { register("C07", runC07) }

const c07K = 10 // bound on handshake retransmission rounds once the network is reliable

type c07Case struct {
	Script    string `json:"script"`
	Timing    string `json:"timing"`        // A | B | both | BafterA
	Restart   int    `json:"restart_after"` // restart B after this many emitted messages (-1 never)
	BackoffMs int    `json:"backoff_ms"`
	KAShort   bool   `json:"keepalive_shorter_than_rekey"`
}

func (c c07Case) sig() string {
	shape := c.Script
	return fmt.Sprintf("%s/%s/r%d/ka%v", shape, c.Timing, c.Restart, c.KAShort)
}

// waitSends waits for the pending sends under the logical-clock verdict rules.
// returns "", or a violation signature + description; inconclusive flagged separately.
func c07Wait(n *cnet, pending []<-chan error, b time.Duration, allowStall bool) (sig, desc string, inconclusive bool) {
	deadline := time.Now().Add(12 * time.Second)
	// the logical clock of these Sends starts now (or when the network becomes reliable, if that is later)
	base, _, _, _ := n.snapshot()
	results := make([]error, len(pending))
	doneN := 0
	done := make([]bool, len(pending))
	for doneN < len(pending) {
		for i, p := range pending {
			if done[i] {
				continue
			}
			select {
			case err := <-p:
				done[i] = true
				results[i] = err
				doneN++
				if err != nil {
					return "C07/send-failed", fmt.Sprintf("a pending Send returned an error instead of completing: %v", err), false
				}
				_ = results
			default:
			}
		}
		if doneN == len(pending) {
			break
		}
		retrans, _, _, prompt := n.snapshot()
		if prompt && retrans-base > c07K {
			return "C07/no-progress", fmt.Sprintf("%d handshake retransmission rounds (each emitted when nothing was in flight) were delivered over a reliable network since the Send was issued and it is still pending", retrans-base), false
		}
		if prompt && allowStall {
			if st, d := n.stalled(time.Second); st {
				// make sure the send did not complete in the meantime
				time.Sleep(2 * time.Millisecond)
				still := false
				for i, p := range pending {
					if done[i] {
						continue
					}
					select {
					case err := <-p:
						done[i] = true
						results[i] = err
						doneN++
					default:
						still = true
					}
				}
				if still {
					return "C07/stalled", "network reliable and quiet, no handshake timer pending on either side, nothing in flight, yet a Send is still pending (only the rekey timer could help): " + d, false
				}
				continue
			}
		}
		if time.Now().After(deadline) {
			return "", "", true
		}
		time.Sleep(time.Millisecond)
	}
	return "", "", false
}

func c07Establish(r *ev.Run, cs c07Case, caseID string) {
	b := time.Duration(cs.BackoffMs) * time.Millisecond
	tm := timingsFor(b, cs.KAShort)
	// a stalled handshake must stay stalled long enough to be told apart from a slow one: only the rekey timer could
	// rescue it, so it is set far beyond the confirmation window.
	tm.RekeyAfterTime, tm.RejectAfterTime = 8*time.Second, 12*time.Second
	if cs.KAShort {
		tm.KeepAliveTimeout = 4 * time.Second
	} else {
		tm.KeepAliveTimeout = 20 * time.Second
	}
	n := newCnet(cendCfg{key: keyN(21), timings: tm}, cendCfg{key: keyN(22), timings: tm}, []byte(cs.Script))
	n.restartAfter = cs.Restart
	defer n.close()
	ctx, cancel := context.WithCancel(context.Background())
	defer cancel()
	det := func(extra map[string]any) map[string]any {
		d := map[string]any{"case": cs, "messages": n.describeLog(60)}
		for k, v := range extra {
			d[k] = v
		}
		return d
	}
	var pending []<-chan error
	pt := func(who string, i int) []byte { return []byte(fmt.Sprintf("c07-%s-%s-%d", caseID, who, i)) }
	switch cs.Timing {
	case "A":
		pending = append(pending, n.sendAsync(ctx, 0, pt("A", 0)))
	case "B":
		pending = append(pending, n.sendAsync(ctx, 1, pt("B", 0)))
	case "both":
		pending = append(pending, n.sendAsync(ctx, 0, pt("A", 0)), n.sendAsync(ctx, 1, pt("B", 0)))
	case "BafterA":
		pending = append(pending, n.sendAsync(ctx, 0, pt("A", 0)))
		for i := 0; i < 200; i++ {
			if _, l, _, _ := n.snapshot(); l > 0 {
				break
			}
			time.Sleep(time.Millisecond)
		}
		pending = append(pending, n.sendAsync(ctx, 1, pt("B", 0)))
	}
	if cs.Restart >= 0 {
		// wait for the restart to have happened (or for the handshake to finish without reaching that many messages), then the new
		// B process sends: that Send is the one the property is about.
		for i := 0; i < 1500; i++ {
			n.mu.Lock()
			rs := n.restarts
			n.mu.Unlock()
			if rs > 0 {
				break
			}
			time.Sleep(time.Millisecond)
		}
		n.mu.Lock()
		rs := n.restarts
		n.mu.Unlock()
		if rs == 0 {
			// fewer messages than the restart point were ever emitted: restart now
			n.mu.Lock()
			n.restartAfter = -1
			n.mu.Unlock()
			n.restart(1)
		}
		n.goPrompt()
		// sends issued to the dead B process are void
		var keep []<-chan error
		if cs.Timing == "A" || cs.Timing == "both" || cs.Timing == "BafterA" {
			keep = append(keep, pending[0])
		}
		pending = append(keep, n.sendAsync(ctx, 1, pt("Bnew", 0)))
	}
	pendingAtSwitch := false
	{
		_, _, _, prompt := n.snapshot()
		pendingAtSwitch = !prompt
	}
	sig, desc, inc := c07Wait(n, pending, b, true)
	r.Eval(1)
	if inc {
		r.Inconclusive("c07 establish watchdog " + caseID)
		return
	}
	if sig != "" {
		if cs.Restart >= 0 {
			// name the state the surviving side was in: that is what identifies the failing history
			// name the state the surviving side was left in: that is what identifies the failing history. (The two ways of
			// observing it — K quiescent retransmission rounds, or a quiet network with no handshake timer — are one failure.)
			sig = "C07/send-stuck/after-restart/A.next=" + slotClass(n.end(0).ch.VerifSlots()[2])
		}
		r.Violate(sig, caseID, desc, det(map[string]any{"slots_A": fmt.Sprintf("%+v", n.end(0).ch.VerifSlots()), "slots_B": fmt.Sprintf("%+v", n.end(1).ch.VerifSlots())}))
		return
	}
	// established: traffic must flow both ways within K fresh messages
	n.goPrompt()
	for dir := 0; dir < 2; dir++ {
		var sent [][]byte
		arrived := false
		for i := 0; i < c07K && !arrived; i++ {
			p := pt(fmt.Sprintf("flow%d", dir), i)
			sctx, cf := context.WithTimeout(ctx, 5*time.Second)
			err := n.end(dir).ch.Send(sctx, [][]byte{p})
			cf()
			if err != nil {
				r.Violate("C07/send-failed-after-establishment", caseID, fmt.Sprintf("Send on an established channel failed: %v", err), det(nil))
				return
			}
			sent = append(sent, p)
			for w := 0; w < 20 && !arrived; w++ {
				time.Sleep(b / 4)
				n.mu.Lock()
				for _, s := range sent {
					if n.appGot[1-dir][string(s)] > 0 {
						arrived = true
					}
				}
				n.mu.Unlock()
			}
		}
		if !arrived {
			sg := "C07/no-flow-after-establishment"
			if cs.Restart >= 0 {
				sg += "/after-restart"
			}
			r.Violate(sg, caseID, fmt.Sprintf("after both sides' Sends completed, none of %d further messages from %s reached the peer over a reliable network", c07K, "AB"[dir:dir+1]), det(nil))
			return
		}
	}
	perturbed := strings.ContainsAny(cs.Script, "X2H") || cs.Restart >= 0 || cs.Timing == "both"
	if perturbed {
		_ = pendingAtSwitch
		r.NonTrivial(cs.sig())
	}
}

// c07Rotation: steady bidirectional traffic across several rekeys.
// oneWay: -1 both sides send; 0 only A (the first initiator) sends; 1 only B sends, after A has brought the channel up with
// WaitReady, so that A initiates every rekey without ever having sent application data.
func c07Rotation(r *ev.Run, g *rng.R, caseID string, kaShort bool, b time.Duration, oneWay int) {
	tm := timingsFor(b, kaShort)
	n := newCnet(cendCfg{key: keyN(23), timings: tm}, cendCfg{key: keyN(24), timings: tm}, nil)
	n.goPrompt()
	defer n.close()
	ctx, cancel := context.WithCancel(context.Background())
	defer cancel()
	T := 6 * tm.RekeyAfterTime
	if oneWay == 1 {
		wctx, wcf := context.WithTimeout(ctx, 5*time.Second)
		err := n.end(0).ch.WaitReady(wctx)
		wcf()
		if err != nil {
			r.Inconclusive("c07 rotation: WaitReady " + caseID)
			return
		}
	}
	start := time.Now()
	var mu sync.Mutex
	sent := [2]int{}
	var failure string
	var wg sync.WaitGroup
	for dir := 0; dir < 2; dir++ {
		dir := dir
		if oneWay >= 0 && dir != oneWay {
			continue
		}
		wg.Add(1)
		go func() {
			defer wg.Done()
			for i := 0; time.Since(start) < T; i++ {
				p := []byte(fmt.Sprintf("rot-%s-%d-%d", caseID, dir, i))
				var sig, desc string
				var inc bool
				// a Send that fails at a session-expiry boundary is retried; only K consecutive failures count
				for attempt := 0; attempt < c07K; attempt++ {
					res := n.sendAsync(ctx, dir, p)
					sig, desc, inc = c07Wait(n, []<-chan error{res}, b, false)
					if sig != "C07/send-failed" {
						break
					}
				}
				if inc {
					mu.Lock()
					failure = "inconclusive"
					mu.Unlock()
					return
				}
				if sig != "" {
					mu.Lock()
					failure = sig + "|" + desc
					mu.Unlock()
					return
				}
				mu.Lock()
				sent[dir]++
				mu.Unlock()
				time.Sleep(b / 2)
			}
		}()
	}
	wg.Wait()
	r.Eval(1)
	det := map[string]any{"keepalive_shorter_than_rekey": kaShort, "one_way": oneWay, "backoff_ms": b.Milliseconds(), "duration_ms": T.Milliseconds(), "rekey_ms": tm.RekeyAfterTime.Milliseconds(), "keepalive_ms": tm.KeepAliveTimeout.Milliseconds(), "sent": sent, "messages_tail": n.describeLog(40)}
	if failure == "inconclusive" {
		r.Inconclusive("c07 rotation watchdog " + caseID)
		return
	}
	if failure != "" {
		p := strings.SplitN(failure, "|", 2)
		r.Violate(p[0]+"/during-rotation", caseID, p[1], det)
		return
	}
	// at most once across rotation, and most messages arrive
	n.mu.Lock()
	hellos := [2]int{}
	seenHello := map[string]bool{}
	for _, m := range n.log {
		if m.Ctr == 0 && !seenHello[string(m.Bytes)] {
			// distinct InitHellos = handshakes started (retransmissions of the same hello are not new handshakes)
			seenHello[string(m.Bytes)] = true
			hellos[m.From]++
		}
	}
	dupe := ""
	got := [2]int{}
	for i := 0; i < 2; i++ {
		for pt, c := range n.appGot[i] {
			got[i]++
			if c > 1 {
				dupe = pt
			}
		}
	}
	n.mu.Unlock()
	det["init_hellos"] = hellos
	det["delivered"] = got
	if dupe != "" {
		r.Violate("C07/duplicate-across-rotation", caseID, "a plaintext was delivered twice across session rotation: "+dupe, det)
		return
	}
	// idleness: a session that keeps receiving authenticated traffic must not be torn down; the observable is the number of
	// handshakes started: about one per RekeyAfterTime per initiating side, whatever KeepAliveTimeout is.
	allowed := int(T/tm.RekeyAfterTime) + 3
	if oneWay < 0 && hellos[0]+hellos[1] > 2*allowed {
		r.Violate("C07/torn-down-despite-traffic", caseID, fmt.Sprintf("%d distinct InitHellos (handshakes started) were emitted during %v of steady two-way traffic (rekey every %v allows about %d): sessions are torn down although they keep receiving authenticated traffic", hellos[0]+hellos[1], T, tm.RekeyAfterTime, allowed), det)
		return
	}
	if (oneWay != 1 && got[1] == 0) || (oneWay != 0 && got[0] == 0) {
		r.Violate("C07/no-flow-during-rotation", caseID, "no traffic arrived in a direction that was sending during rotation", det)
		return
	}
	r.NonTrivial(fmt.Sprintf("rotation/ka%v/b%d/oneway%d", kaShort, b.Milliseconds(), oneWay))
	r.Count("rotation_messages_delivered", int64(got[0]+got[1]))
}

// c07Expiry: traffic stops for longer than RejectAfter, then a Send must complete.
func c07Expiry(r *ev.Run, caseID string, b time.Duration, kaShort bool) {
	tm := timingsFor(b, kaShort)
	n := newCnet(cendCfg{key: keyN(25), timings: tm}, cendCfg{key: keyN(26), timings: tm}, nil)
	n.goPrompt()
	defer n.close()
	ctx, cancel := context.WithCancel(context.Background())
	defer cancel()
	sig, desc, inc := c07Wait(n, []<-chan error{n.sendAsync(ctx, 0, []byte("exp-0-"+caseID))}, b, false)
	r.Eval(1)
	if inc || sig != "" {
		if sig != "" {
			r.Violate(sig+"/expiry-setup", caseID, desc, map[string]any{"messages": n.describeLog(40)})
		} else {
			r.Inconclusive("c07 expiry setup " + caseID)
		}
		return
	}
	time.Sleep(tm.RejectAfterTime + 10*b)
	// reset the logical clock: count retransmissions from now
	n.mu.Lock()
	n.retrans = 0
	n.mu.Unlock()
	who := 1
	sig, desc, inc = c07Wait(n, []<-chan error{n.sendAsync(ctx, who, []byte("exp-1-"+caseID))}, b, false)
	if inc {
		r.Inconclusive("c07 expiry " + caseID)
		return
	}
	if sig != "" {
		r.Violate(sig+"/after-expiry", caseID, desc, map[string]any{"messages": n.describeLog(60)})
		return
	}
	r.NonTrivial(fmt.Sprintf("expiry/ka%v", kaShort))
}

// c07IdleExpiry: the session dies of idleness (no authenticated traffic for longer than KeepAliveTimeout) long before the
// rekey timer is due; the next Send, from either side, must bring a new session up within the usual bound.
func c07IdleExpiry(r *ev.Run, caseID string, b time.Duration, who int, idleFactor int, lateDup bool) {
	tm := p2pke.VerifTimings{HandshakeBackoff: b, KeepAliveTimeout: 30 * b, RekeyAfterTime: 8 * time.Second, RejectAfterTime: 12 * time.Second}
	n := newCnet(cendCfg{key: keyN(31), timings: tm}, cendCfg{key: keyN(32), timings: tm}, nil)
	n.goPrompt()
	defer n.close()
	ctx, cancel := context.WithCancel(context.Background())
	defer cancel()
	sig, desc, inc := c07Wait(n, []<-chan error{n.sendAsync(ctx, 0, []byte("idle-0-"+caseID))}, b, true)
	r.Eval(1)
	if inc || sig != "" {
		if sig != "" {
			r.Violate(sig+"/idle-expiry-setup", caseID, desc, map[string]any{"messages": n.describeLog(40)})
		} else {
			r.Inconclusive("c07 idle expiry setup " + caseID)
		}
		return
	}
	if lateDup {
		// the network delivers late copies of the handshake messages of the session that is now established (and has
		// carried application data): they must not leave anything behind that keeps a later Send from starting afresh
		n.mu.Lock()
		var late []*cmsg
		for _, m := range n.log {
			if m.Ctr < 16 {
				late = append(late, m)
			}
		}
		n.mu.Unlock()
		for _, m := range late {
			n.push(1-m.From, m.Bytes)
		}
		time.Sleep(3 * b)
	}
	time.Sleep(time.Duration(idleFactor) * tm.KeepAliveTimeout / 10)
	n.mu.Lock()
	n.retrans = 0
	n.mu.Unlock()
	sig, desc, inc = c07Wait(n, []<-chan error{n.sendAsync(ctx, who, []byte("idle-1-"+caseID))}, b, true)
	if inc {
		r.Inconclusive("c07 idle expiry " + caseID)
		return
	}
	if sig != "" {
		side := "initiator"
		if who == 1 {
			side = "responder"
		}
		if lateDup {
			side += "/late-handshake-duplicates"
		}
		r.Violate(sig+"/after-idle-expiry/"+side, caseID, desc, map[string]any{"late_duplicates": lateDup, "idle_ms": (time.Duration(idleFactor) * tm.KeepAliveTimeout / 10).Milliseconds(), "keepalive_ms": tm.KeepAliveTimeout.Milliseconds(), "rekey_ms": tm.RekeyAfterTime.Milliseconds(), "messages": n.describeLog(60)})
		return
	}
	r.NonTrivial(fmt.Sprintf("idle-expiry/who%d/idle%d/latedup=%v", who, idleFactor, lateDup))
}

// c07Overtake: every RespDone is lost (or the first few are), so the initiator learns of completion from the responder's
// application data. The initiator's pending Send must then complete.
func c07Overtake(r *ev.Run, caseID string, b time.Duration, dropFirst int) {
	tm := timingsFor(b, false)
	tm.RekeyAfterTime, tm.RejectAfterTime, tm.KeepAliveTimeout = 8*time.Second, 12*time.Second, 20*time.Second
	n := newCnet(cendCfg{key: keyN(27), timings: tm}, cendCfg{key: keyN(28), timings: tm}, nil)
	dropped := 0
	n.filter = func(m *cmsg) bool {
		if m.From == 1 && m.Ctr == 3 && (dropFirst < 0 || dropped < dropFirst) {
			dropped++
			return false
		}
		return true
	}
	n.goPrompt()
	defer n.close()
	ctx, cancel := context.WithCancel(context.Background())
	defer cancel()
	pendA := n.sendAsync(ctx, 0, []byte("overtake-A-"+caseID))
	// wait until the responder is ready, then let it talk
	ready := false
	for i := 0; i < 3000 && !ready; i++ {
		if sl := n.end(1).ch.VerifSlots(); sl[1].Occupied && sl[1].Ready {
			ready = true
		}
		time.Sleep(time.Millisecond)
	}
	r.Eval(1)
	if !ready {
		r.Inconclusive("c07 overtake: responder never became ready " + caseID)
		return
	}
	for i := 0; i < 3; i++ {
		sctx, cf := context.WithTimeout(ctx, 5*time.Second)
		err := n.end(1).ch.Send(sctx, [][]byte{[]byte(fmt.Sprintf("overtake-B-%s-%d", caseID, i))})
		cf()
		if err != nil {
			r.Violate("C07/send-failed/overtake", caseID, fmt.Sprintf("responder's Send failed: %v", err), map[string]any{"messages": n.describeLog(40)})
			return
		}
		time.Sleep(b)
	}
	sig, desc, inc := c07Wait(n, []<-chan error{pendA}, b, true)
	if inc {
		r.Inconclusive("c07 overtake watchdog " + caseID)
		return
	}
	if sig != "" {
		r.Violate(sig+"/data-overtook-respdone", caseID, desc, map[string]any{"resp_done_dropped": dropped, "messages": n.describeLog(40)})
		return
	}
	// the remote key must be known once the channel is usable
	rk := n.end(0).ch.RemoteKey()
	if rk.IsZero() {
		r.Violate("C07/ready-without-remote-key/data-overtook-respdone", caseID, "the initiator's Send completed but the channel reports no remote key", map[string]any{"messages": n.describeLog(40)})
		return
	}
	r.NonTrivial(fmt.Sprintf("overtake/drop%d", dropFirst))
}

func c07Scripts(maxLen int) []string {
	var out []string
	var rec func(prefix string)
	rec = func(prefix string) {
		out = append(out, prefix)
		if len(prefix) >= maxLen {
			return
		}
		for _, c := range "DX2H" {
			rec(prefix + string(c))
		}
	}
	rec("")
	return out
}

func runC07(r *ev.Run) {
	r.Rule = "two real Channels whose Send callbacks feed the harness; phase 1 applies a script over the first k emitted messages (every string over {deliver, drop, duplicate, hold-and-swap} up to length k; the quick tier adds six longer scripts that lose the tail of the handshake together with the first data messages), crossed with the timing of the two sides' first Send and a restart of the peer after message j; phase 2 delivers promptly. Logical clock = handshake retransmissions since phase 2 began: a Send pending after K=10 of them, or pending while the network is quiet with no handshake timer armed, is a violation; then traffic must flow both ways. Rotation: steady two-way traffic (and one-way traffic from either side, the other having only brought the channel up) over 6 rekey periods (no Send may stall, no plaintext twice, handshakes started ~ once per rekey whatever KeepAlive is). Expiry: silence longer than RejectAfter, then a Send; idle expiry: silence of 0.9..3.5 KeepAliveTimeouts with the rekey timer far away, then a Send from the earlier initiator or responder, with and without late copies of the established session's handshake messages arriving first. non-trivial = script perturbed a message / both initiated / restart; distinct = (script, timing, restart point, keep-alive class)"
	r.Assumptions = []string{"K=10 retransmission rounds is the 'small bounded number' of the property; timers are real (5-20 ms backoff), verdicts are on retransmission counts and quiescence, the wall-clock watchdog only yields 'inconclusive'"}
	scripts := c07Scripts(pick(r, 4, 5))
	timings := []string{"A", "B", "both", "BafterA"}
	g := rng.New(r.Seed, "C07", "cases")
	idx := 0
	budget := pick(r, 420, 6000)
	// enumerate (script x timing) fully; restart points and timer choices are drawn per case
	type job struct {
		cs c07Case
		id string
	}
	var jobs []job
	for _, s := range scripts {
		for _, tmg := range timings {
			cs := c07Case{Script: s, Timing: tmg, Restart: -1, BackoffMs: rng.Pick(g, []int{5, 10, 20}), KAShort: g.Bool()}
			jobs = append(jobs, job{cs, fmt.Sprintf("est-%s-%s", orDash(s), tmg)})
			if g.Chance(1, 3) {
				cs2 := cs
				cs2.Restart = g.Range(1, len(s)+3)
				jobs = append(jobs, job{cs2, fmt.Sprintf("est-%s-%s-r%d", orDash(s), tmg, cs2.Restart)})
			}
		}
	}
	// thin out deterministically to the budget
	step := 1
	if len(jobs) > budget {
		step = (len(jobs) + budget - 1) / budget
	}
	var sel []job
	off := int(r.Seed) % step
	if off < 0 {
		off = 0
	}
	for i := off; i < len(jobs); i += step {
		sel = append(sel, jobs[i])
	}
	if !isThorough(r) {
		// the quick tier enumerates scripts up to length 4; a few longer ones are always added: the tail of the handshake and
		// the first data messages lost together (what was sent just before the link healed is what decides who repeats what)
		tg := rng.New(r.Seed, "C07", "tail-loss")
		for _, s := range []string{"DDDXX", "DDDXXX", "DDXXX", "DDDDXX", "DDXXXX", "DDD2XX"} {
			for _, tmg := range timings {
				sel = append(sel, job{c07Case{Script: s, Timing: tmg, Restart: -1, BackoffMs: rng.Pick(tg, []int{5, 10, 20}), KAShort: tg.Bool()}, fmt.Sprintf("est-%s-%s", s, tmg)})
			}
		}
	}
	par := 2
	sem := make(chan struct{}, par)
	var wg sync.WaitGroup
	for _, j := range sel {
		idx++
		if !r.Mine(idx) || !r.Want(j.id) {
			continue
		}
		j := j
		wg.Add(1)
		sem <- struct{}{}
		go func() {
			defer wg.Done()
			defer func() { <-sem }()
			c07Establish(r, j.cs, j.id)
		}()
	}
	wg.Wait()
	for i, df := range []int{-1, 1, 3} {
		id := fmt.Sprintf("overtake-%d-%d", r.Batch, i)
		if r.Want(id) {
			c07Overtake(r, id, 10*time.Millisecond, df)
		}
	}
	// rotation and expiry (a few per batch; they take seconds of real time)
	nRot := pick(r, 1, 4)
	if raceEnabled {
		// rotation and expiry need short real lifetimes (hundreds of ms); under the race detector's slow-down handshakes
		// outlive such sessions. They are logic checks and run in the plain pass.
		nRot = 0
	}
	for i := 0; i < nRot; i++ {
		for _, ka := range []bool{true, false} {
			id := fmt.Sprintf("rot-%d-%d-ka%v", r.Batch, i, ka)
			if !r.Want(id) {
				continue
			}
			ka := ka
			fg := g.Fork()
			wg.Add(1)
			go func() {
				defer wg.Done()
				c07Rotation(r, fg, id, ka, 10*time.Millisecond, -1)
			}()
			if !ka {
				for ow := 0; ow < 2; ow++ {
					ow := ow
					idw := fmt.Sprintf("rot-%d-%d-oneway%d", r.Batch, i, ow)
					if !r.Want(idw) {
						continue
					}
					fg2 := g.Fork()
					wg.Add(1)
					go func() {
						defer wg.Done()
						c07Rotation(r, fg2, idw, false, 10*time.Millisecond, ow)
					}()
				}
			}
			for who := 0; who < 2; who++ {
				who := who
				idle := []int{12, 20, 9, 35}[(i+r.Batch)%4] // tenths of KeepAliveTimeout
				for _, ld := range []bool{false, true} {
					ld := ld
					id3 := fmt.Sprintf("idle-%d-%d-ka%v-who%d-latedup%v", r.Batch, i, ka, who, ld)
					if ka && r.Want(id3) {
						wg.Add(1)
						go func() {
							defer wg.Done()
							c07IdleExpiry(r, id3, 10*time.Millisecond, who, idle, ld)
						}()
					}
				}
			}
			id2 := fmt.Sprintf("exp-%d-%d-ka%v", r.Batch, i, ka)
			if r.Want(id2) {
				wg.Add(1)
				go func() {
					defer wg.Done()
					c07Expiry(r, id2, 10*time.Millisecond, ka)
				}()
			}
		}
		wg.Wait()
	}
	r.Sample(map[string]any{"scripts": len(scripts), "jobs_enumerated": len(jobs), "jobs_selected": len(sel), "example": sel[len(sel)/2].cs})
	// swarm level: handshakes in progress across p2pkeswarm's housekeeping pass (one case of ~10 s, in one batch, plain pass)
	if id := "swarm-housekeeping"; c07SwarmHook != nil && !raceEnabled && r.Mine(7777) && r.Want(id) {
		c07SwarmHook(r, g.Fork(), id)
	}
}

var c07SwarmHook func(r *ev.Run, g *rng.R, caseID string)

func slotClass(sl p2pke.VerifSlot) string {
	if !sl.Occupied {
		return "none"
	}
	role := "resp"
	if sl.IsInit {
		role = "init"
	}
	return fmt.Sprintf("%s@%d", role, sl.HsIndex)
}

func orDash(s string) string {
	if s == "" {
		return "-"
	}
	return s
}
