package main

import (
	"context"
	"sync"
	"sync/atomic"
	"time"

	"verifharness/internal/ev"
	"verifharness/internal/gor"
	"verifharness/internal/rng"
)

//go:noinline
func c12heldRecv(fn func()) { fn() }

// c12HeldCallback: "after Close is *called*, every Receive that was blocked returns promptly" while one receive callback is
// still running. Three receivers wait on one node with non-expiring contexts; the first message's callback is held (for at most
// holdMax, or until its sibling receivers have returned); Close is called from another goroutine. The siblings are watched from
// the moment Close is called: still pending and parked at the same library frames in two snapshots a second apart, while the
// held callback is still running, is COUNTED per stack (an observation in the evidence, not a verdict: see below). Whether
// Close itself returns before the callback does is not looked at (the in-memory transports wait for callbacks in flight).
// Everything is released at the end of the case.
func c12HeldCallback(r *ev.Run, sf stackFactory, g *rng.R, caseID string) {
	const holdMax = 4 * time.Second
	st, err := sf.Build(stackOptsFor(sf.Name, g))
	if err != nil || len(st.Nodes) < 2 {
		r.Inconclusive("cannot build stack " + sf.Name)
		return
	}
	a, b := st.Nodes[0], st.Nodes[1]
	entered := make(chan struct{})
	release := make(chan struct{})
	var first atomic.Bool
	var held atomic.Bool
	const nRecv = 3
	sibDone := make(chan struct{})
	var sibLeft atomic.Int64
	sibLeft.Store(nRecv - 1)
	var wg sync.WaitGroup
	var succ atomic.Int64
	for i := 0; i < nRecv; i++ {
		wg.Add(1)
		go func() {
			defer wg.Done()
			holder := false
			var err error
			c12heldRecv(func() {
				err = b.Receive(context.Background(), func(m Msg) {
					if first.CompareAndSwap(false, true) {
						holder = true
						held.Store(true)
						close(entered)
						select {
						case <-release:
						case <-time.After(holdMax):
						}
						held.Store(false)
					}
				})
			})
			if !holder {
				if err == nil {
					succ.Add(1) // took a second message: one of the retries below
				}
				if sibLeft.Add(-1) == 0 {
					close(sibDone)
				}
			}
		}()
	}
	time.Sleep(50 * time.Millisecond)
	led := newLedger()
	got := false
	for i := 0; i < 100 && !got; i++ {
		tctx, tcf := context.WithTimeout(context.Background(), 2*time.Second)
		a.Tell(tctx, b.Idx, segmentOne(led.mk(g, 0, 1, ledgerHdr+8, 0)))
		tcf()
		select {
		case <-entered:
			got = true
		case <-time.After(100 * time.Millisecond):
		}
	}
	r.Eval(1)
	finish := func() {
		close(release)
		cd := make(chan struct{})
		go func() { st.CloseAll(); wg.Wait(); close(cd) }()
		select {
		case <-cd:
		case <-time.After(10 * time.Second):
		}
	}
	if !got || succ.Load() > 0 {
		// the message never arrived, or the retries fed the siblings too: nothing to observe
		r.Count("held_callback_cases_without_setup", 1)
		finish()
		return
	}
	time.Sleep(30 * time.Millisecond)
	closeDone := make(chan struct{})
	go func() { b.Close(); close(closeDone) }()
	// the siblings, from the call of Close on
	v, stacks := gor.WaitParked(sibDone, "main.c12heldRecv", 700*time.Millisecond, time.Second)
	stillHeld := held.Load()
	switch {
	case v == gor.Returned:
		r.NonTrivial(st.Name + "/held-callback/siblings-returned")
		r.Count("held_callback_siblings_returned_while_held", 1)
	case v == gor.Parked && stillHeld:
		// the holder itself is parked in the harness's select, under library frames too: make sure a sibling is among them
		n := 0
		for _, gg := range gor.Find(gor.Snapshot(), "main.c12heldRecv") {
			if !gg.Has("c12HeldCallback.func1.1.1") && gor.IsParked(gg.State) {
				n++
			}
		}
		if n > 0 {
			// Observation only, not a verdict: the siblings do return once the callback does (late, not stuck), and the unchanged
			// tree itself closes the inner transport (which waits for callbacks in flight) before its hub in frag(mem) and
			// p2pke(mem); "promptly" cannot be told from "after the callback" without a latency bound (DESIGN 9.6, C12d5/C12g1).
			r.Count("held_callback_siblings_parked_until_callback_returned/"+st.Name, 1)
			_ = stacks
		}
	default:
		r.Count("held_callback_undecided", 1)
	}
	finish()
	select {
	case <-closeDone:
	case <-time.After(5 * time.Second):
	}
}
