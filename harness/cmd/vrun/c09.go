package main

import (
	"context"
	"fmt"
	"go.brendoncarroll.net/p2p/s/udpswarm"
	"net/netip"
	"strings"
	"sync"
	"sync/atomic"
	"time"

	"go.brendoncarroll.net/p2p"
	"go.brendoncarroll.net/p2p/f/x509"
	"go.brendoncarroll.net/p2p/p/mbapp"
	"go.brendoncarroll.net/p2p/p/p2pmux"
	"go.brendoncarroll.net/p2p/s/fragswarm"
	"go.brendoncarroll.net/p2p/s/memswarm"
	"go.brendoncarroll.net/p2p/s/p2pkeswarm"

	"verifharness/internal/ev"
	"verifharness/internal/rng"
)

func init() { register("C09", runC09) }

// recSwarm records MTU errors returned by the swarm it wraps (the layer under test may swallow them).
type recSwarm[A p2p.Addr] struct {
	p2p.Swarm[A]
	mtuErrs *atomic.Int64
}

func (s recSwarm[A]) Tell(ctx context.Context, dst A, v p2p.IOVec) error {
	err := s.Swarm.Tell(ctx, dst, v)
	if p2p.IsErrMTUExceeded(err) {
		s.mtuErrs.Add(1)
	}
	return err
}

type recSecAsk[A p2p.Addr, Pub any] struct {
	p2p.SecureAskSwarm[A, Pub]
	mtuErrs *atomic.Int64
}

func (s recSecAsk[A, Pub]) Tell(ctx context.Context, dst A, v p2p.IOVec) error {
	err := s.SecureAskSwarm.Tell(ctx, dst, v)
	if p2p.IsErrMTUExceeded(err) {
		s.mtuErrs.Add(1)
	}
	return err
}

func (s recSecAsk[A, Pub]) Ask(ctx context.Context, resp []byte, dst A, v p2p.IOVec) (int, error) {
	n, err := s.SecureAskSwarm.Ask(ctx, resp, dst, v)
	if p2p.IsErrMTUExceeded(err) {
		s.mtuErrs.Add(1)
	}
	return n, err
}

type recAsk[A p2p.Addr] struct {
	p2p.AskSwarm[A]
	mtuErrs *atomic.Int64
}

func (s recAsk[A]) Tell(ctx context.Context, dst A, v p2p.IOVec) error {
	err := s.AskSwarm.Tell(ctx, dst, v)
	if p2p.IsErrMTUExceeded(err) {
		s.mtuErrs.Add(1)
	}
	return err
}

func (s recAsk[A]) Ask(ctx context.Context, resp []byte, dst A, v p2p.IOVec) (int, error) {
	n, err := s.AskSwarm.Ask(ctx, resp, dst, v)
	if p2p.IsErrMTUExceeded(err) {
		s.mtuErrs.Add(1)
	}
	return n, err
}

type c09Stack struct {
	st       *Stack
	cfg      string
	innerErr *atomic.Int64 // MTU errors seen beneath the layer under test (nil if no recorder)
	bounds   []int         // lengths of interest (layer boundaries)
	quic     bool
}

func c09Configs(g *rng.R, thorough bool) []func() (*c09Stack, error) {
	var out []func() (*c09Stack, error)
	add := func(f func() (*c09Stack, error)) { out = append(out, f) }
	const n = 2
	// plain mem with various MTUs
	for _, m := range []int{1, 40, 100, 1000, 65536} {
		m := m
		add(func() (*c09Stack, error) {
			return &c09Stack{st: buildMem(stackOpts{n: n, innerMTU: m}), cfg: fmt.Sprintf("mem/mtu=%d", m)}, nil
		})
	}
	add(func() (*c09Stack, error) {
		st, err := buildUDP(stackOpts{n: n}, "127.0.0.1:0", "udp4")
		return &c09Stack{st: st, cfg: "udp4"}, err
	})
	// dual-stack sockets addressed in the IPv4-mapped spelling
	add(func() (*c09Stack, error) {
		st, err := buildUDPMapped(n)
		return &c09Stack{st: st, cfg: "udp-dual/v4-mapped"}, err
	})
	// the in-memory transport with a (transparent) link emulation installed: sizes are checked on that path too
	add(func() (*c09Stack, error) {
		realm := memswarm.NewRealm(memswarm.WithQueueLen(256), memswarm.WithMTU(100), memswarm.WithTellTransform(func(*memswarm.Message) bool { return true }))
		sw := make([]p2p.Swarm[memAddr], n)
		for i := range sw {
			sw[i] = realm.NewSwarm()
		}
		return &c09Stack{st: mkStack("mem", sw), cfg: "mem/mtu=100/with-tell-transform"}, nil
	})
	// fragswarm over recorded mem
	for _, m := range []int{40, 64, 100, 576, 1280} {
		part := m - fragswarm.Overhead
		for _, o := range []int{m, 4 * m, 255*part - 1, 255 * part, 255*part + 1, 256 * m, 1 << 16, 1 << 20} {
			m, o, part := m, o, part
			if !thorough && (m == 576 || m == 64) {
				continue
			}
			add(func() (*c09Stack, error) {
				var errs atomic.Int64
				realm := memswarm.NewRealm(memswarm.WithQueueLen(min(1<<17, o/part+1024)), memswarm.WithMTU(m))
				sw := make([]p2p.Swarm[memAddr], n)
				for i := range sw {
					sw[i] = fragswarm.New[memAddr](recSwarm[memAddr]{realm.NewSwarm(), &errs}, o)
				}
				st := mkStack("frag(mem)", sw)
				st.InnerMTU = m
				var b []int
				for _, k := range []int{1, 2, 254, 255, 256, 257} {
					for d := -1; d <= 1; d++ {
						b = append(b, k*part+d)
					}
				}
				return &c09Stack{st: st, cfg: fmt.Sprintf("frag(mem)/inner=%d/outer=%d", m, o), innerErr: &errs, bounds: b}, nil
			})
		}
	}
	// mbapp over recorded secure mem
	for _, m := range []int{40, 64, 100, 1280} {
		part := m - mbapp.HeaderSize
		for _, o := range []int{m, 4 * m, 256 * m, 65535*part - 1, 65535 * part, 65535*part + 1, 1 << 16, 1 << 20} {
			m, o, part := m, o, part
			if o > 1<<21 || (!thorough && m == 64) {
				continue
			}
			add(func() (*c09Stack, error) {
				var errs atomic.Int64
				realm := memswarm.NewSecureRealm[x509.PublicKey](memswarm.WithQueueLen(min(1<<17, o/part+1024)), memswarm.WithMTU(m))
				sw := make([]p2p.Swarm[memAddr], n)
				for i := range sw {
					sw[i] = mbapp.New[memAddr, x509.PublicKey](recSecAsk[memAddr, x509.PublicKey]{realm.NewSwarm(keyN(100 + i).Pub), &errs}, o)
				}
				st := mkStack("mbapp(mem)", sw)
				st.InnerMTU = m
				var b []int
				for _, k := range []int{1, 2, 255, 256, 65535, 65536} {
					for d := -1; d <= 1; d++ {
						b = append(b, k*part+d)
					}
				}
				return &c09Stack{st: st, cfg: fmt.Sprintf("mbapp(mem)/inner=%d/outer=%d", m, o), innerErr: &errs, bounds: b}, nil
			})
		}
	}
	// multiplexers: channel ids of every header length
	type muxCase struct {
		kind string
		open func(x p2p.AskSwarm[memAddr]) p2p.Swarm[memAddr]
	}
	var muxes []muxCase
	for _, id := range []string{"", "a", strings.Repeat("x", 127), strings.Repeat("y", 128), strings.Repeat("z", 1000)} {
		id := id
		muxes = append(muxes, muxCase{fmt.Sprintf("string[%d]", len(id)), func(x p2p.AskSwarm[memAddr]) p2p.Swarm[memAddr] {
			return p2pmux.NewStringAskMux[memAddr](x).Open(id)
		}})
	}
	for _, id := range []uint64{0, 127, 128, 1 << 14, 1<<32 - 1, 1<<64 - 1} {
		id := id
		muxes = append(muxes, muxCase{fmt.Sprintf("varint[%d]", id), func(x p2p.AskSwarm[memAddr]) p2p.Swarm[memAddr] {
			return p2pmux.NewVarintAskMux[memAddr](x).Open(id)
		}})
	}
	// two channels with headers of different length on ONE multiplexer: the other channel is opened, and asked for its MTU,
	// first. Each channel's MTU has to account for its own header.
	for _, pr := range [][2]string{{"", strings.Repeat("z", 1000)}, {strings.Repeat("z", 1000), ""}, {"a", strings.Repeat("y", 128)}} {
		pr := pr
		muxes = append(muxes, muxCase{fmt.Sprintf("string[%d-after-%d]", len(pr[1]), len(pr[0])), func(x p2p.AskSwarm[memAddr]) p2p.Swarm[memAddr] {
			m := p2pmux.NewStringAskMux[memAddr](x)
			_ = m.Open(pr[0]).MTU()
			return m.Open(pr[1])
		}})
	}
	for _, pr := range [][2]uint64{{0, 1<<64 - 1}, {1<<64 - 1, 0}, {127, 128}} {
		pr := pr
		muxes = append(muxes, muxCase{fmt.Sprintf("varint[%d-after-%d]", pr[1], pr[0]), func(x p2p.AskSwarm[memAddr]) p2p.Swarm[memAddr] {
			m := p2pmux.NewVarintAskMux[memAddr](x)
			_ = m.Open(pr[0]).MTU()
			return m.Open(pr[1])
		}})
	}
	muxes = append(muxes,
		muxCase{"uint16", func(x p2p.AskSwarm[memAddr]) p2p.Swarm[memAddr] { return p2pmux.NewUint16AskMux[memAddr](x).Open(7) }},
		muxCase{"uint32", func(x p2p.AskSwarm[memAddr]) p2p.Swarm[memAddr] { return p2pmux.NewUint32AskMux[memAddr](x).Open(7) }},
		muxCase{"uint64", func(x p2p.AskSwarm[memAddr]) p2p.Swarm[memAddr] { return p2pmux.NewUint64AskMux[memAddr](x).Open(7) }},
	)
	for _, mc := range muxes {
		for _, m := range []int{1200, 65536} {
			mc, m := mc, m
			add(func() (*c09Stack, error) {
				var errs atomic.Int64
				realm := memswarm.NewRealm(memswarm.WithQueueLen(256), memswarm.WithMTU(m))
				sw := make([]p2p.Swarm[memAddr], n)
				inner := make([]p2p.Swarm[memAddr], n)
				for i := range sw {
					x := realm.NewSwarm()
					inner[i] = x
					sw[i] = mc.open(recAsk[memAddr]{x, &errs})
				}
				st := mkStack("mux(mem)", sw)
				st.Teardown = func() {
					for _, x := range inner {
						x.Close()
					}
				}
				return &c09Stack{st: st, cfg: fmt.Sprintf("mux-%s(mem)/inner=%d", mc.kind, m), innerErr: &errs}, nil
			})
		}
	}
	// multi-transport with equal and unequal MTUs
	for _, mb := range []int{0, 100, 500} {
		mb := mb
		add(func() (*c09Stack, error) {
			return &c09Stack{st: buildMultiMem(stackOpts{n: n, innerMTU: 1000}, mb), cfg: fmt.Sprintf("multi{mem:1000,mem:%d}", mb)}, nil
		})
	}
	// p2pke and nestings
	for _, m := range []int{300, 1280, 65536} {
		m := m
		add(func() (*c09Stack, error) {
			var errs atomic.Int64
			realm := memswarm.NewRealm(memswarm.WithQueueLen(256), memswarm.WithMTU(m))
			type A = p2pkeswarm.Addr[memAddr]
			sw := make([]p2p.Swarm[A], n)
			for i := range sw {
				sw[i] = p2pkeswarm.New[memAddr](recSwarm[memAddr]{realm.NewSwarm(), &errs}, keyN(100+i).Priv)
			}
			return &c09Stack{st: mkStack("p2pke(mem)", sw), cfg: fmt.Sprintf("p2pke(mem)/inner=%d", m), innerErr: &errs}, nil
		})
	}
	add(func() (*c09Stack, error) {
		return &c09Stack{st: buildFragP2PKEMem(stackOpts{n: n, innerMTU: 200}), cfg: "frag(p2pke(mem:200))"}, nil
	})
	add(func() (*c09Stack, error) {
		return &c09Stack{st: buildP2PKEFragMem(stackOpts{n: n, innerMTU: 100}), cfg: "p2pke(frag(mem:100))"}, nil
	})
	add(func() (*c09Stack, error) {
		return &c09Stack{st: buildMuxFragMem(stackOpts{n: n, innerMTU: 100}), cfg: "mux(frag(mem:100))"}, nil
	})
	add(func() (*c09Stack, error) {
		return &c09Stack{st: buildMbappP2PKEMem(stackOpts{n: n, innerMTU: 300}), cfg: "mbapp(p2pke(mem:300))"}, nil
	})
	for _, f := range []func(stackOpts) *Stack{buildMapMem, buildWLMem, buildSecMem} {
		f := f
		add(func() (*c09Stack, error) {
			st := f(stackOpts{n: n, innerMTU: 777})
			return &c09Stack{st: st, cfg: st.Name + "/mtu=777"}, nil
		})
	}
	// the two connection-oriented transports run in both tiers (one configuration each in the quick tier)
	add(func() (*c09Stack, error) {
		st, err := buildQUICMem(stackOpts{n: n, outerMTU: 5000})
		return &c09Stack{st: st, cfg: "quic(mem)/mtu=5000", quic: true}, err
	})
	add(func() (*c09Stack, error) {
		st, err := buildSSH(stackOpts{n: n})
		return &c09Stack{st: st, cfg: "ssh"}, err
	})
	if thorough {
		add(func() (*c09Stack, error) {
			st, err := buildQUICMem(stackOpts{n: n})
			return &c09Stack{st: st, cfg: "quic(mem)", quic: true}, err
		})
		add(func() (*c09Stack, error) {
			st, err := buildQUICUDP(stackOpts{n: n})
			return &c09Stack{st: st, cfg: "quic(udp)", quic: true}, err
		})
		add(func() (*c09Stack, error) {
			st, err := buildP2PKEUDP(stackOpts{n: n})
			return &c09Stack{st: st, cfg: "p2pke(udp)"}, err
		})
		add(func() (*c09Stack, error) {
			st, err := buildUDP(stackOpts{n: n}, "[::1]:0", "udp6")
			return &c09Stack{st: st, cfg: "udp6"}, err
		})
	}
	return out
}

func runC09(r *ev.Run) {
	r.Rule = "per stack configuration (inner MTUs 40..65536, outer MTUs at and around 255 resp. 65535 parts, every multiplexer id length, equal and unequal multi-transport MTUs, nestings): lengths {0,1,MTU-1,MTU} and fragment-count boundaries +-1 must not be refused for size by the swarm or (recorder under the layer) any layer beneath, and arrive byte-identical (ledger); lengths {MTU+1, 2*MTU} must be refused with the MTU error and never be delivered, not even in part; tells and asks. never-delivered <=MTU cases are reported as coverage gaps, not violations, except on connection-oriented transports where a control of half the length goes through every time and the boundary length never does (refused for size without the MTU error). non-trivial = a boundary length that was delivered (<=MTU) or refused (>MTU); distinct = (configuration, boundary)"
	g := rng.New(r.Seed, "C09", fmt.Sprint(r.Batch))
	cfgs := c09Configs(g, isThorough(r))
	for ci, mk := range cfgs {
		cg := g.Fork()
		if !r.Mine(ci) {
			continue
		}
		cs, err := mk()
		if err != nil {
			r.Inconclusive("cannot build stack: " + err.Error())
			continue
		}
		caseID := "cfg-" + cs.cfg
		if !r.Want(caseID) {
			cs.st.CloseAll()
			continue
		}
		c09Run(r, cs, cg, caseID)
	}
}

func c09Run(r *ev.Run, cs *c09Stack, g *rng.R, caseID string) {
	st := cs.st
	led := newLedger()
	mu := st.Nodes[0].MTU()
	det := func(extra map[string]any) map[string]any {
		d := map[string]any{"config": cs.cfg, "mtu": mu}
		for k, v := range extra {
			d[k] = v
		}
		return d
	}
	ctx, cancel := context.WithCancel(context.Background())
	var rwg sync.WaitGroup
	var mtx sync.Mutex
	seen := map[uint32]bool{} // ledger seq delivered
	// receiver on node 1 (tells) and ask server
	recv := st.Nodes[1]
	check := func(p []byte, what string) *lent {
		cands := led.lookup(p)
		if len(cands) == 0 {
			r.Violate("C09/altered-or-partial/"+st.Name, caseID, "a "+what+" arrived that is not byte-identical to any payload sent: "+describePayload(p), det(map[string]any{"len": len(p)}))
			return nil
		}
		e := cands[0]
		mtx.Lock()
		seen[e.Seq] = true
		mtx.Unlock()
		if e.Tag == 9 {
			r.Violate("C09/oversize-delivered/"+st.Name, caseID, fmt.Sprintf("a payload of %d bytes, longer than MTU()=%d, was delivered", e.Len, mu), det(map[string]any{"len": e.Len, "via": what}))
		}
		return e
	}
	for w := 0; w < 2; w++ {
		rwg.Add(1)
		go func() {
			defer rwg.Done()
			for {
				if err := recv.Receive(ctx, func(m Msg) { check(append([]byte{}, m.Payload...), "tell") }); err != nil {
					return
				}
			}
		}()
	}
	if st.HasAsk {
		rwg.Add(1)
		go func() {
			defer rwg.Done()
			for {
				err := recv.ServeAsk(ctx, func(_ context.Context, resp []byte, m Msg) int {
					check(append([]byte{}, m.Payload...), "ask request")
					return copy(resp, "ok")
				})
				if err != nil {
					return
				}
			}
		}()
	}
	// lengths
	type lcase struct {
		L    int
		name string
	}
	var ls []lcase
	addL := func(L int, name string) {
		if L >= 0 && L <= 3<<20 {
			for _, x := range ls {
				if x.L == L {
					return
				}
			}
			ls = append(ls, lcase{L, name})
		}
	}
	addL(0, "0")
	addL(1, "1")
	addL(mu-1, "mtu-1")
	addL(mu, "mtu")
	addL(mu+1, "mtu+1")
	addL(2*mu, "2mtu")
	for _, b := range cs.bounds {
		if b > 0 && b <= mu+1 {
			addL(b, fmt.Sprintf("bound(%d)", b))
		}
	}
	sender := st.Nodes[0]
	delivered := func(seq uint32) bool {
		mtx.Lock()
		defer mtx.Unlock()
		return seen[seq]
	}
	waitFor := func(seq uint32, d time.Duration) bool {
		dl := time.Now().Add(d)
		for time.Now().Before(dl) {
			if delivered(seq) {
				return true
			}
			time.Sleep(200 * time.Microsecond)
		}
		return delivered(seq)
	}
	anyDelivered := false
	modes := []string{"tell"}
	if st.HasAsk {
		modes = append(modes, "ask")
	}
	for _, mode := range modes {
		for _, lc := range ls {
			L := lc.L
			r.Eval(1)
			if L <= mu {
				ok := false
				var lastErr error
				inner0 := int64(0)
				if cs.innerErr != nil {
					inner0 = cs.innerErr.Load()
				}
				attempts := 0
				for attempts = 0; attempts < 5 && !ok; attempts++ {
					p := led.mk(g, 0, 1, L, 0)
					e := led.lookup(p)[len(led.lookup(p))-1]
					v, _ := segment(g, p)
					callTimeout := 20 * time.Second
					if cs.quic || cs.cfg == "ssh" {
						callTimeout = 4 * time.Second
					}
					tctx, cf := context.WithTimeout(ctx, callTimeout)
					var err error
					if mode == "tell" {
						err = sender.Tell(tctx, 1, v)
					} else {
						resp := make([]byte, 16)
						_, err = sender.Ask(tctx, resp, 1, v)
					}
					cf()
					lastErr = err
					if p2p.IsErrMTUExceeded(err) {
						r.Violate("C09/refused-below-mtu/"+st.Name+"/"+mode, caseID, fmt.Sprintf("%s of %d bytes was refused with the MTU error although MTU() reports %d", mode, L, mu), det(map[string]any{"len": L, "boundary": lc.name, "err": err.Error()}))
						break
					}
					if L == 0 {
						// the empty payload is shared in the ledger: count it as delivered when the call succeeded
						ok = err == nil
						continue
					}
					wait := 300 * time.Millisecond
					if L > 1<<16 {
						wait = 3 * time.Second
					}
					if err == nil && waitFor(e.Seq, wait) {
						ok = true
					}
				}
				if ok {
					anyDelivered = true
					r.NonTrivial(fmt.Sprintf("%s/%s/%s", cs.cfg, mode, lc.name))
				} else if lastErr == nil && !cs.quic && cs.innerErr != nil && cs.innerErr.Load()-inner0 >= int64(attempts) {
					r.Violate("C09/lost-to-inner-mtu/"+st.Name+"/"+mode, caseID, fmt.Sprintf("%s of %d bytes (<= MTU() = %d) returned nil but was never delivered; every attempt hit the MTU error of the transport underneath, which the layer swallowed", mode, L, mu), det(map[string]any{"len": L, "boundary": lc.name, "attempts": attempts}))
				} else if !p2p.IsErrMTUExceeded(lastErr) {
					r.Count("below_mtu_never_delivered", 1)
					// Is it the size? On a connection-oriented transport (nothing is lost on the way) a control of half the
					// length is sent; if that one goes through and the boundary length then fails once more, the only thing that
					// differs is the length: some layer, here or at the peer, refused it for size without saying so.
					// The same holds for stacks built on the in-process transport alone (no socket, no link emulation): nothing is
					// lost there either, so a length that never arrives while half of it always does is refused for its size.
					inProcess := !strings.Contains(cs.cfg, "udp") && !strings.Contains(cs.cfg, "with-tell-transform")
					if (cs.quic || cs.cfg == "ssh" || inProcess) && L >= 64 {
						try := func(n int) bool {
							p := led.mk(g, 0, 1, n, 0)
							e := led.lookup(p)[len(led.lookup(p))-1]
							v, _ := segment(g, p)
							tctx, cf := context.WithTimeout(ctx, 5*time.Second)
							defer cf()
							var err error
							if mode == "tell" {
								err = sender.Tell(tctx, 1, v)
							} else {
								_, err = sender.Ask(tctx, make([]byte, 16), 1, v)
							}
							return err == nil && waitFor(e.Seq, time.Second)
						}
						c1, b1, c2, b2 := try(L/2), try(L), try(L/2), try(L)
						if c1 && c2 && !b1 && !b2 {
							r.Violate("C09/size-dependent-failure-below-mtu/"+st.Name+"/"+mode, caseID, fmt.Sprintf("%s of %d bytes (<= MTU() = %d) fails every time (%d attempts, last error %v) while %d bytes go through every time over the same path: it is being refused for its size", mode, L, mu, attempts+2, lastErr, L/2), det(map[string]any{"len": L, "boundary": lc.name}))
						}
					}
				}
			} else {
				p := led.mk(g, 0, 1, L, 9)
				e := led.lookup(p)[len(led.lookup(p))-1]
				v, _ := segment(g, p)
				tctx, cf := context.WithTimeout(ctx, 20*time.Second)
				var err error
				if mode == "tell" {
					err = sender.Tell(tctx, 1, v)
				} else {
					resp := make([]byte, 16)
					_, err = sender.Ask(tctx, resp, 1, v)
				}
				cf()
				if !p2p.IsErrMTUExceeded(err) {
					r.Violate("C09/accepted-above-mtu/"+st.Name+"/"+mode, caseID, fmt.Sprintf("%s of %d bytes, longer than MTU()=%d, was not refused with the MTU error (err=%v)", mode, L, mu, err), det(map[string]any{"len": L, "boundary": lc.name}))
				} else {
					r.NonTrivial(fmt.Sprintf("%s/%s/%s", cs.cfg, mode, lc.name))
				}
				waitFor(e.Seq, 30*time.Millisecond) // a delivery (whole or part) is flagged by the receiver
			}
		}
	}
	cancel()
	done := make(chan struct{})
	go func() { st.CloseAll(); close(done) }()
	select {
	case <-done:
	case <-time.After(10 * time.Second):
		r.Count("teardown_blocked", 1)
	}
	wd := make(chan struct{})
	go func() { rwg.Wait(); close(wd) }()
	select {
	case <-wd:
	case <-time.After(5 * time.Second):
		r.Count("receivers_left_behind", 1)
	}
	if !anyDelivered {
		r.Inconclusive("nothing <= MTU was seen delivered on " + cs.cfg)
	}
	if strings.HasPrefix(cs.cfg, "frag(mem)/inner=40/outer=160") || strings.HasPrefix(cs.cfg, "mux-string[128]") {
		var names []string
		for _, l := range ls {
			names = append(names, fmt.Sprintf("%s=%d", l.name, l.L))
		}
		r.Sample(map[string]any{"config": cs.cfg, "mtu": mu, "lengths": names})
	}
}

// mappedUDP presents a dual-stack udpswarm node under the IPv4-mapped spelling of its loopback address, the way a dual-stack
// listener reports its IPv4 peers.
type mappedUDP struct{ *udpswarm.Swarm }

func (m mappedUDP) LocalAddrs() []udpswarm.Addr {
	var port uint16
	for _, a := range m.Swarm.LocalAddrs() {
		port = a.Port
	}
	return []udpswarm.Addr{{IP: netip.AddrFrom16(netip.MustParseAddr("127.0.0.1").As16()), Port: port}}
}

func buildUDPMapped(n int) (*Stack, error) {
	sw := make([]p2p.Swarm[udpswarm.Addr], n)
	for i := range sw {
		s, err := udpswarm.New("[::]:0")
		if err != nil {
			for _, x := range sw[:i] {
				x.Close()
			}
			return nil, err
		}
		sw[i] = mappedUDP{s}
	}
	return mkStack("udp-dual/v4-mapped", sw), nil
}
