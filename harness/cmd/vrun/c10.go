package main

import (
	"bytes"
	"context"
	"fmt"
	"sort"
	"strings"
	"sync"
	"sync/atomic"
	"time"

	"go.brendoncarroll.net/p2p"
	"go.brendoncarroll.net/p2p/f/x509"
	"go.brendoncarroll.net/p2p/p/mbapp"
	"go.brendoncarroll.net/p2p/s/fragswarm"
	"go.brendoncarroll.net/p2p/verifhook"

	"verifharness/internal/ev"
	"verifharness/internal/rng"
)

func init() { register("C10", runC10) }

type c10Layer struct {
	name string
	part func(innerMTU int) int
	mk   func(inner *wireNode, outerMTU int) p2p.Swarm[wireAddr]
}

func c10Layers() []c10Layer {
	return []c10Layer{
		{"fragswarm", func(m int) int { return m - fragswarm.Overhead }, func(in *wireNode, o int) p2p.Swarm[wireAddr] {
			return fragswarm.New[wireAddr](in, o)
		}},
		{"mbapp", func(m int) int { return m - mbapp.HeaderSize }, func(in *wireNode, o int) p2p.Swarm[wireAddr] {
			return mbapp.New[wireAddr, x509.PublicKey](in, o)
		}},
	}
}

type c10Frag struct {
	Src   wireAddr
	Bytes []byte
	Msg   int // index into messages
	K     int // fragment number within the message (capture order)
}

type c10Message struct {
	Sender  int
	Payload []byte
	Frags   []int // indices into frags
}

// capture lets k real sender instances tell messages to D (address 0) and labels every fragment.
func c10Capture(g *rng.R, layer c10Layer, innerMTU, k, perSender int, sizes []int) (*wireNet, []c10Message, []c10Frag, int) {
	return c10CaptureN(g, layer, innerMTU, k, perSender, sizes, 14, false)
}

// c10CaptureN: as c10Capture with the outer MTU given in parts; inOrder takes the sizes in order instead of drawing them.
func c10CaptureN(g *rng.R, layer c10Layer, innerMTU, k, perSender int, sizes []int, outerParts int, inOrder bool) (*wireNet, []c10Message, []c10Frag, int) {
	net := newWireNet(innerMTU)
	part := layer.part(innerMTU)
	outer := outerParts * part
	var msgs []c10Message
	var frags []c10Frag
	ctx := context.Background()
	for s := 1; s <= k; s++ {
		node := net.node(s)
		sw := layer.mk(node, outer)
		for j := 0; j < perSender; j++ {
			L := sizes[(s*7+j*3+g.Intn(len(sizes)))%len(sizes)]
			if inOrder {
				L = sizes[j%len(sizes)]
			}
			if L > outer {
				L = outer
			}
			p := g.Bytes(L)
			copy(p, fmt.Sprintf("<%d.%d>", s, j))
			mi := len(msgs)
			net.take()
			if err := sw.Tell(ctx, wireAddr{0}, p2p.IOVec{p}); err != nil {
				continue
			}
			m := c10Message{Sender: s, Payload: p}
			for fi, wm := range net.take() {
				m.Frags = append(m.Frags, len(frags))
				frags = append(frags, c10Frag{Src: wm.Src, Bytes: wm.Bytes, Msg: mi, K: fi})
			}
			msgs = append(msgs, m)
		}
		sw.Close()
	}
	return net, msgs, frags, outer
}

type c10Delivery struct {
	Src     wireAddr
	Payload []byte
}

// c10Feed runs one schedule against a fresh destination instance and returns what it delivered.
func c10Feed(net *wireNet, layer c10Layer, outer int, frags []c10Frag, order []int) []c10Delivery {
	dnode := net.replace(0)
	d := layer.mk(dnode, outer)
	ctx, cancel := context.WithCancel(context.Background())
	var mu sync.Mutex
	var out []c10Delivery
	var got atomic.Int64
	var wg sync.WaitGroup
	for w := 0; w < 2; w++ {
		wg.Add(1)
		go func() {
			defer wg.Done()
			for {
				err := d.Receive(ctx, func(m p2p.Message[wireAddr]) {
					mu.Lock()
					out = append(out, c10Delivery{m.Src, append([]byte{}, m.Payload...)})
					mu.Unlock()
					got.Add(1)
					// the receiver owns the buffer during the callback
					for i := range m.Payload {
						m.Payload[i] = 0xDD
					}
				})
				if err != nil {
					return
				}
			}
		}()
	}
	for _, fi := range order {
		f := frags[fi]
		net.inject(f.Src, wireAddr{0}, f.Bytes)
	}
	// quiescence: inbox drained and the delivery count stable
	stable := 0
	last := int64(-1)
	for i := 0; i < 4000 && stable < 4; i++ {
		time.Sleep(300 * time.Microsecond)
		if len(dnode.inbox) != 0 {
			stable = 0
			continue
		}
		if cur := got.Load(); cur == last {
			stable++
		} else {
			last, stable = cur, 0
		}
	}
	cancel()
	d.Close()
	wg.Wait()
	mu.Lock()
	defer mu.Unlock()
	return out
}

// c10Check applies the oracle to the deliveries of one schedule.
func c10Check(r *ev.Run, caseID string, layer c10Layer, msgs []c10Message, frags []c10Frag, order []int, dels []c10Delivery, innerMTU int) (completed int) {
	fed := map[int]map[int]bool{} // msg -> fragment numbers fed
	for _, fi := range order {
		f := frags[fi]
		if fed[f.Msg] == nil {
			fed[f.Msg] = map[int]bool{}
		}
		fed[f.Msg][f.K] = true
	}
	det := func(extra map[string]any) map[string]any {
		var sched []string
		for _, fi := range order {
			f := frags[fi]
			sched = append(sched, fmt.Sprintf("m%d.f%d(from w%d,%dB)", f.Msg, f.K, f.Src.N, len(f.Bytes)))
		}
		if len(sched) > 80 {
			sched = append(sched[:80], "...")
		}
		d := map[string]any{"layer": layer.name, "inner_mtu": innerMTU, "schedule": sched}
		for k, v := range extra {
			d[k] = v
		}
		return d
	}
	for _, dl := range dels {
		// several messages may carry identical (short) payloads: the delivery is fine if ANY sent message explains it
		anyEqual, anySender, explained := false, false, false
		firstEq := -1
		for i := range msgs {
			if !bytes.Equal(msgs[i].Payload, dl.Payload) {
				continue
			}
			anyEqual = true
			if firstEq < 0 {
				firstEq = i
			}
			if msgs[i].Sender != dl.Src.N {
				continue
			}
			anySender = true
			if len(fed[i]) >= len(msgs[i].Frags) {
				explained = true
			}
		}
		if !anyEqual {
			// what is it made of?
			kind := "matches no sent payload"
			for i := range msgs {
				if len(dl.Payload) > 8 && bytes.Contains(msgs[i].Payload, dl.Payload[:8]) {
					kind = fmt.Sprintf("starts like message %d of sender w%d (len %d, delivered len %d)", i, msgs[i].Sender, len(msgs[i].Payload), len(dl.Payload))
				}
			}
			r.Violate("C10/invented-or-mixed/"+layer.name, caseID, "the fragmenting layer delivered a payload that is not one of the payloads sent: "+kind, det(map[string]any{"delivered_len": len(dl.Payload), "src": dl.Src.String(), "head": hexShort(dl.Payload)}))
			return
		}
		if !anySender {
			r.Violate("C10/wrong-source/"+layer.name, caseID, fmt.Sprintf("a payload sent by w%d was delivered as coming from %s, which sent no such payload", msgs[firstEq].Sender, dl.Src), det(nil))
			return
		}
		if !explained {
			r.Violate("C10/delivered-with-missing-fragment/"+layer.name, caseID, fmt.Sprintf("a message of %s was delivered although not all of its fragments were ever fed", dl.Src), det(nil))
			return
		}
		completed++
	}
	return completed
}

func interleavings(a, b []int) [][]int {
	if len(a) == 0 {
		return [][]int{append([]int{}, b...)}
	}
	if len(b) == 0 {
		return [][]int{append([]int{}, a...)}
	}
	var out [][]int
	for _, rest := range interleavings(a[1:], b) {
		out = append(out, append([]int{a[0]}, rest...))
	}
	for _, rest := range interleavings(a, b[1:]) {
		out = append(out, append([]int{b[0]}, rest...))
	}
	return out
}

func runC10(r *ev.Run) {
	r.Rule = "the harness is the inner transport: 2-4 real sender instances (fragswarm, mbapp) tell messages of 1, 2, 3 and many fragments (exact multiples of the fragment size +-1); every captured fragment is labelled; a fresh real destination instance per schedule is fed an interleaving of the fragments of several messages and sources: enumerated (two messages of <=3 fragments: all interleavings x drop-one x duplicate-one) and random (all messages shuffled with loss and duplication), with seeded delays at the reassembly hook points; every delivered payload must equal one sent payload of the sender Src names, and a message with a never-fed fragment must not be delivered. Part-count sweep: one message per part count 1..33, fed whole (in order, reversed), with one fragment missing, and one fragment alone. Largest message: MTU()-1, MTU() and MTU()+1 bytes over 1-, 2- or 4-byte parts (the part count at the limit of its header field), fed in order: delivered as told or refused. Concurrent tells: six goroutines of one sender instance tell eight multi-part messages each (equal part counts) to one destination at once, what was emitted is fed in emission order to a fresh destination: every delivered payload must be one told. Also multi-part ask responses under reordering, and a request and a reply from the same peer sharing one group id. non-trivial = fragments of >=2 messages interleaved and >=1 message completed; distinct = interleaving-shape hash"
	g := rng.New(r.Seed, "C10", fmt.Sprint(r.Batch))
	idx := 0
	for li, layer := range c10Layers() {
		if r.Mine(100 + li) {
			c10LargestMessage(r, g.Fork(), "C10", layer)
		}
		for _, innerMTU := range []int{40, 64, 100, 1000} {
			idx++
			cg := g.Fork()
			if !r.Mine(idx) {
				continue
			}
			caseID := fmt.Sprintf("%s-mtu%d", layer.name, innerMTU)
			if !r.Want(caseID) {
				continue
			}
			armHooks(cg, []uint16{verifhook.FragAfterAddPart, verifhook.MbappAfterAddPart, verifhook.TellHubDeliver, verifhook.TellHubReceiveBlock})
			part := layer.part(innerMTU)
			sizes := []int{1, part - 1, part, part + 1, 2*part - 1, 2 * part, 2*part + 1, 3 * part, 3*part - 2, 5*part + 3, 9 * part, 12*part + 1}
			k := cg.Range(2, 4)
			net, msgs, frags, outer := c10Capture(cg, layer, innerMTU, k, 6, sizes)
			// ---- enumerated: pairs of small messages
			var small []int
			for i, m := range msgs {
				if len(m.Frags) >= 2 && len(m.Frags) <= 3 {
					small = append(small, i)
				}
			}
			nEnum := 0
			budget := pick(r, 260, 4000)
			for ai := 0; ai < len(small) && nEnum < budget; ai++ {
				for bi := ai + 1; bi < len(small) && nEnum < budget; bi++ {
					a, b := msgs[small[ai]], msgs[small[bi]]
					ivs := interleavings(a.Frags, b.Frags)
					for ii, iv := range ivs {
						// drop-one x dup-one, thinned by the budget
						for drop := -1; drop < len(iv); drop++ {
							for dup := -1; dup < len(iv); dup++ {
								if nEnum >= budget {
									break
								}
								if (drop >= 0 || dup >= 0) && cg.Intn(6) != 0 {
									continue // sample the perturbations
								}
								var order []int
								for pos, fi := range iv {
									if pos == drop {
										continue
									}
									order = append(order, fi)
									if pos == dup {
										order = append(order, fi)
									}
								}
								nEnum++
								r.Eval(1)
								dels := c10Feed(net, layer, outer, frags, order)
								if c10Check(r, caseID, layer, msgs, frags, order, dels, innerMTU) > 0 {
									r.NonTrivial(fmt.Sprintf("%s/%d/enum/iv%d/drop%v/dup%v", layer.name, innerMTU, ii%16, drop >= 0, dup >= 0))
								}
							}
						}
					}
				}
			}
			// ---- random: everything interleaved
			nRand := pick(r, 40, 1200)
			for t := 0; t < nRand; t++ {
				var order []int
				for fi := range frags {
					x := cg.Intn(20)
					switch {
					case x == 0: // lost
					case x == 1:
						order = append(order, fi, fi)
					default:
						order = append(order, fi)
					}
				}
				cg2 := cg.Fork()
				perm := cg2.Perm(len(order))
				sh := make([]int, len(order))
				for i, p := range perm {
					sh[i] = order[p]
				}
				// keep some locality: half of the time only shuffle within a window
				if cg.Bool() {
					sh = append([]int{}, order...)
					for i := range sh {
						j := i + cg.Intn(min(8, len(sh)-i))
						sh[i], sh[j] = sh[j], sh[i]
					}
				}
				r.Eval(1)
				dels := c10Feed(net, layer, outer, frags, sh)
				if c10Check(r, caseID, layer, msgs, frags, sh, dels, innerMTU) > 0 {
					r.NonTrivial(fmt.Sprintf("%s/%d/rand/%s", layer.name, innerMTU, hashStr(fmt.Sprint(sh))[:5]))
				}
			}
			verifhook.DisarmAll()
			c10PartCountSweep(r, cg, caseID, layer, innerMTU)
			c10FailedTell(r, cg, caseID, layer, innerMTU)
			for rep := 0; rep < pick(r, 3, 12); rep++ {
				c10ConcurrentTells(r, cg.Fork(), caseID, layer, innerMTU)
			}
			if layer.name == "mbapp" {
				c10AskReplies(r, cg, caseID, innerMTU)
			}
			if idx%3 == 1 {
				var ml []string
				for i, m := range msgs {
					ml = append(ml, fmt.Sprintf("m%d: w%d %dB in %d fragments", i, m.Sender, len(m.Payload), len(m.Frags)))
				}
				sort.Strings(ml)
				r.Sample(map[string]any{"layer": layer.name, "inner_mtu": innerMTU, "senders": k, "messages": ml, "enumerated_schedules": nEnum, "random_schedules": nRand})
			}
		}
	}
}

// c10PartCountSweep: one message for every part count 1..33 (exact multiple of the fragment size, or one byte less); each is
// fed to a fresh destination whole (in order, reversed), with one fragment missing (first, middle, last: nothing may be
// delivered) and one fragment at a time alone.
func c10PartCountSweep(r *ev.Run, g *rng.R, caseID string, layer c10Layer, innerMTU int) {
	part := layer.part(innerMTU)
	const maxParts = 33
	var sizes []int
	for n := 1; n <= maxParts; n++ {
		L := n * part
		if g.Bool() && L > 1 {
			L--
		}
		sizes = append(sizes, L)
	}
	net, msgs, frags, outer := c10CaptureN(g, layer, innerMTU, 1, maxParts, sizes, maxParts+1, true)
	for mi, m := range msgs {
		n := len(m.Frags)
		if n == 0 {
			continue
		}
		var schedules [][]int
		fwd := append([]int{}, m.Frags...)
		rev := make([]int, n)
		for i := range fwd {
			rev[n-1-i] = fwd[i]
		}
		schedules = append(schedules, fwd, rev)
		if n >= 2 {
			for _, miss := range []int{0, n / 2, n - 1} {
				var o []int
				for i, fi := range fwd {
					if i != miss {
						o = append(o, fi)
					}
				}
				schedules = append(schedules, o)
			}
			for _, only := range []int{0, n / 2, n - 1} {
				schedules = append(schedules, []int{fwd[only]})
			}
		}
		for si, order := range schedules {
			r.Eval(1)
			dels := c10Feed(net, layer, outer, frags, order)
			if c10Check(r, caseID+"-sweep", layer, msgs, frags, order, dels, innerMTU) > 0 && si < 2 {
				r.NonTrivial(fmt.Sprintf("%s/%d/sweep/parts=%d", layer.name, innerMTU, n))
			}
			if si < 2 && len(dels) == 0 {
				r.Count("sweep_whole_message_not_delivered", 1) // a loss, not judged here
			}
		}
		_ = mi
	}
}

// c10AskReplies: multi-part ask responses reordered/duplicated/dropped, and a request and a reply from the same peer
// that share one group id.
func c10AskReplies(r *ev.Run, g *rng.R, caseID string, innerMTU int) {
	part := innerMTU - mbapp.HeaderSize
	n := pick(r, 12, 150)
	for t := 0; t < n; t++ {
		r.Eval(1)
		net := newWireNet(innerMTU)
		outer := 14 * part
		dn, sn := net.node(0), net.node(1)
		// requests go through promptly, responses (and S's own tells) are captured
		net.route = func(m *wireMsg) bool { return m.Dst.N == 1 }
		d := mbapp.New[wireAddr, x509.PublicKey](dn, outer)
		s := mbapp.New[wireAddr, x509.PublicKey](sn, outer)
		respLen := rng.Pick(g, []int{2 * part, 3*part + 1, 5 * part, 9*part - 1})
		response := g.Bytes(respLen)
		copy(response, "RESPONSE:")
		sctx, scancel := context.WithCancel(context.Background())
		var swg sync.WaitGroup
		swg.Add(1)
		go func() {
			defer swg.Done()
			for {
				if err := s.ServeAsk(sctx, func(_ context.Context, resp []byte, m p2p.Message[wireAddr]) int {
					return copy(resp, response)
				}); err != nil {
					return
				}
			}
		}()
		collide := t%3 == 0
		tellPayload := g.Bytes(rng.Pick(g, []int{2*part + 1, 4 * part, 7 * part}))
		copy(tellPayload, "TELL-FROM-S:")
		// D receives tells
		var dmu sync.Mutex
		var dTells [][]byte
		dctx, dcancel := context.WithCancel(context.Background())
		swg.Add(1)
		go func() {
			defer swg.Done()
			for {
				if err := d.Receive(dctx, func(m p2p.Message[wireAddr]) {
					dmu.Lock()
					dTells = append(dTells, append([]byte{}, m.Payload...))
					dmu.Unlock()
				}); err != nil {
					return
				}
			}
		}()
		resp := make([]byte, outer)
		var an int
		var aerr error
		adone := make(chan struct{})
		actx, acf := context.WithTimeout(context.Background(), 400*time.Millisecond)
		go func() {
			an, aerr = d.Ask(actx, resp, wireAddr{1}, p2p.IOVec{[]byte("request-" + caseID)})
			close(adone)
		}()
		sAsks := collide && t%6 == 3
		if collide && !sAsks {
			// S tells D something at the same moment: its group id (origin time in ms, counter 1) can coincide with
			// the group id D chose for its ask (D's counter is also 1)
			s.Tell(context.Background(), wireAddr{0}, p2p.IOVec{tellPayload})
		}
		if sAsks {
			// ... or S asks D at that moment (a multi-part request): S's request and S's reply to D's ask then travel from the
			// same source, both as parts of asks, possibly under one group id; D serves and records what its handler is shown
			copy(tellPayload, "ASK--FROM-S:")
			swg.Add(1)
			go func() {
				defer swg.Done()
				for {
					if err := d.ServeAsk(dctx, func(_ context.Context, resp []byte, m p2p.Message[wireAddr]) int {
						dmu.Lock()
						dTells = append(dTells, append([]byte{}, m.Payload...))
						dmu.Unlock()
						return copy(resp, "ok")
					}); err != nil {
						return
					}
				}
			}()
			swg.Add(1)
			go func() {
				defer swg.Done()
				sactx, sacf := context.WithTimeout(context.Background(), 400*time.Millisecond)
				defer sacf()
				s.Ask(sactx, make([]byte, 16), wireAddr{0}, p2p.IOVec{tellPayload})
			}()
		}
		// wait for the response fragments to be captured
		var captured []*wireMsg
		for i := 0; i < 400; i++ {
			time.Sleep(500 * time.Microsecond)
			net.mu.Lock()
			cnt := 0
			for _, m := range net.pool {
				if m.Dst.N == 0 {
					cnt++
				}
			}
			net.mu.Unlock()
			want := (respLen + part - 1) / part
			if collide {
				want += (len(tellPayload) + part - 1) / part
			}
			if cnt >= want {
				break
			}
		}
		for _, m := range net.take() {
			if m.Dst.N == 0 {
				captured = append(captured, m)
			}
		}
		sameGroup := false
		if collide && len(captured) > 0 {
			ids := map[string]bool{}
			for _, m := range captured {
				if h, _, err := mbapp.ParseMessage(m.Bytes); err == nil {
					ids[fmt.Sprintf("%d/%d/reply=%v", h.GetOriginTime(), h.GetCounter(), h.IsReply())] = true
				}
			}
			var plain, reply []string
			for k := range ids {
				if strings.HasSuffix(k, "reply=true") {
					reply = append(reply, strings.TrimSuffix(k, "/reply=true"))
				} else {
					plain = append(plain, strings.TrimSuffix(k, "/reply=false"))
				}
			}
			for _, a := range plain {
				for _, b := range reply {
					if a == b {
						sameGroup = true
					}
				}
			}
		}
		// perturb: shuffle, sometimes duplicate, sometimes drop one
		order := g.Perm(len(captured))
		mode := t % 4
		for i, oi := range order {
			if mode == 1 && i == 0 && !collide {
				continue // drop one
			}
			net.inject(captured[oi].Src, wireAddr{0}, captured[oi].Bytes)
			if mode == 2 && i%3 == 0 {
				net.inject(captured[oi].Src, wireAddr{0}, captured[oi].Bytes)
			}
		}
		<-adone
		acf()
		time.Sleep(2 * time.Millisecond)
		det := map[string]any{"inner_mtu": innerMTU, "response_len": respLen, "fragments": len(captured), "mode": mode, "n": an, "err": fmt.Sprint(aerr), "tell_and_reply_share_group_id": sameGroup}
		if aerr == nil && !bytes.Equal(resp[:an], response) {
			sig := "C10/ask-response-mixed/mbapp"
			if sameGroup {
				sig += "/shared-group-id"
			}
			r.Violate(sig, caseID, "Ask succeeded with bytes that are not the handler's response (reassembly mixed or truncated the multi-part response)", det)
		} else if aerr == nil {
			if sameGroup {
				r.NonTrivial(fmt.Sprintf("mbapp/%d/ask-reply/shared-group-id", innerMTU))
			} else {
				r.NonTrivial(fmt.Sprintf("mbapp/%d/ask-reply/mode%d", innerMTU, mode))
			}
		}
		dmu.Lock()
		for _, tp := range dTells {
			if !bytes.Equal(tp, tellPayload) {
				sig := "C10/invented-or-mixed/mbapp/tell-vs-reply"
				if sameGroup {
					sig += "/shared-group-id"
				}
				if sAsks {
					sig = strings.Replace(sig, "tell-vs-reply", "request-vs-reply", 1)
				}
				r.Violate(sig, caseID, "a message (told, or asked as a request) was delivered with bytes that are not what was sent (mixed with an ask reply from the same peer)", det)
			}
		}
		dmu.Unlock()
		if sameGroup {
			r.Count("tell_reply_group_id_collisions", 1)
		}
		scancel()
		dcancel()
		d.Close()
		s.Close()
		swg.Wait()
	}
}

// c10LargestMessage: the largest message a layer says it carries, over an inner transport whose parts are a few bytes long (so
// that the part count reaches the limit of its header field): payloads of MTU()-1, MTU() and MTU()+1 bytes are told, the
// captured fragments are fed in order to a fresh destination, and whatever is delivered must be the payload told. A refusal
// (ErrMTUExceeded) is fine. prop is the property on whose behalf the case runs (C10, C01).
func c10LargestMessage(r *ev.Run, g *rng.R, prop string, layer c10Layer) {
	caseID := "largest-" + layer.name
	if !r.Want(caseID) {
		return
	}
	partSize := rng.Pick(g, []int{1, 2, 4})
	innerMTU := partSize - layer.part(0)
	net := newWireNet(innerMTU)
	const configured = 1 << 28
	sender := layer.mk(net.node(1), configured)
	defer sender.Close()
	mtu := sender.MTU()
	if mtu <= 0 || mtu > 1<<22 {
		r.Inconclusive(fmt.Sprintf("%s reports MTU %d over %d-byte parts", layer.name, mtu, partSize))
		return
	}
	ctx := context.Background()
	for _, L := range []int{mtu - 1, mtu, mtu + 1} {
		r.Eval(1)
		p := g.Bytes(L)
		net.take()
		tctx, cf := context.WithTimeout(ctx, 60*time.Second)
		err := sender.Tell(tctx, wireAddr{0}, p2p.IOVec{p})
		cf()
		frags := net.take()
		if err != nil {
			r.Count("largest_refused", 1)
			continue
		}
		dnode := net.replace(0)
		d := layer.mk(dnode, configured)
		rctx, cancel := context.WithCancel(ctx)
		var mu sync.Mutex
		var dels [][]byte
		var got atomic.Int64
		var wg sync.WaitGroup
		for w := 0; w < 2; w++ {
			wg.Add(1)
			go func() {
				defer wg.Done()
				for d.Receive(rctx, func(m p2p.Message[wireAddr]) {
					mu.Lock()
					if len(dels) < 64 {
						dels = append(dels, append([]byte{}, m.Payload...))
					}
					mu.Unlock()
					got.Add(1)
				}) == nil {
				}
			}()
		}
		// mbapp's housekeeping goroutine makes a first pass when it starts and drops whatever is being collected at that
		// moment (a loss, which no property here judges): let it start before the parts arrive
		time.Sleep(20 * time.Millisecond)
		for _, f := range frags {
			for try := 0; !net.inject(f.Src, wireAddr{0}, f.Bytes) && try < 20000; try++ {
				time.Sleep(100 * time.Microsecond) // inbox full: the destination is still working
			}
		}
		stable, last := 0, int64(-1)
		for i := 0; i < 20000 && stable < 6; i++ {
			time.Sleep(500 * time.Microsecond)
			if len(dnode.inbox) != 0 {
				stable = 0
				continue
			}
			if cur := got.Load(); cur == last {
				stable++
			} else {
				last, stable = cur, 0
			}
		}
		cancel()
		d.Close()
		wg.Wait()
		whole := false
		for _, dl := range dels {
			if bytes.Equal(dl, p) {
				whole = true
				continue
			}
			sig := prop + "/invented-or-mixed/" + layer.name
			if prop == "C01" {
				sig = prop + "/unknown-payload/" + layer.name + ",largest-message"
			}
			r.Violate(sig, caseID, fmt.Sprintf("a %d-byte message (MTU() is %d) sent as %d parts of %d bytes was delivered as a %d-byte payload that is not the payload told (%d deliveries in all)", L, mtu, len(frags), partSize, len(dl), got.Load()),
				map[string]any{"layer": layer.name, "told_len": L, "mtu": mtu, "parts": len(frags), "part_size": partSize, "delivered_len": len(dl), "deliveries": got.Load(), "head": hexShort(dl)})
			break
		}
		if whole {
			r.NonTrivial(fmt.Sprintf("%s/largest/parts=%d/len=mtu%+d", layer.name, len(frags), L-mtu))
		} else {
			r.Count(fmt.Sprintf("largest_not_delivered/%s/parts=%d/len=mtu%+d/deliveries=%d", layer.name, len(frags), L-mtu, got.Load()), 1)
		}
	}
}

// c10FailedTell: the transport refuses one fragment of a multi-part Tell with an error (for the receiver: a lost fragment, the
// others are on their way), and the sender then tells another message of the same part count, and a third. Every schedule
// feeds what got out of the failed Tell together with the later messages, whole or with one fragment missing: whatever the
// sender does about its failed Tell, the destination may only deliver payloads that were sent, and none with a fragment missing.
func c10FailedTell(r *ev.Run, g *rng.R, caseID string, layer c10Layer, innerMTU int) {
	part := layer.part(innerMTU)
	for _, n := range []int{2, 3, 5, 8} {
		for failAt := 0; failAt < n; failAt += 1 + n/3 {
			net := newWireNet(innerMTU)
			outer := 14 * part
			sw := layer.mk(net.node(1), outer)
			var msgs []c10Message
			var frags []c10Frag
			calls, failNow := 0, false
			net.fail = func(*wireMsg) error { // under net.mu
				if !failNow {
					return nil
				}
				calls++
				if calls-1 == failAt {
					return fmt.Errorf("transport refused this datagram")
				}
				return nil
			}
			failed := false
			for j := 0; j < 3; j++ {
				L := n*part - g.Intn(2)
				p := g.Bytes(L)
				copy(p, fmt.Sprintf("<F%d.%d>", n, j))
				net.take()
				net.mu.Lock()
				failNow, calls = j == 0, 0
				net.mu.Unlock()
				err := sw.Tell(context.Background(), wireAddr{0}, p2p.IOVec{p})
				if j == 0 {
					failed = err != nil
				}
				mi := len(msgs)
				m := c10Message{Sender: 1, Payload: p}
				for fi, wm := range net.take() {
					m.Frags = append(m.Frags, len(frags))
					frags = append(frags, c10Frag{Src: wm.Src, Bytes: wm.Bytes, Msg: mi, K: fi})
				}
				if j == 0 {
					// never complete: one fragment did not get out (the extra index is never fed)
					m.Frags = append(m.Frags, -1)
				}
				msgs = append(msgs, m)
			}
			net.mu.Lock()
			net.fail = nil
			net.mu.Unlock()
			sw.Close()
			if !failed {
				r.Count("failed_tell_not_reported_by_layer", 1)
			}
			real := func(mi int) []int {
				var o []int
				for _, fi := range msgs[mi].Frags {
					if fi >= 0 {
						o = append(o, fi)
					}
				}
				return o
			}
			var schedules [][]int
			all := append(append(append([]int{}, real(0)...), real(1)...), real(2)...)
			schedules = append(schedules, all)
			schedules = append(schedules, append(append(append([]int{}, real(1)...), real(0)...), real(2)...))
			for miss := 0; miss < len(real(1)); miss++ {
				var o []int
				o = append(o, real(0)...)
				for i, fi := range real(1) {
					if i != miss {
						o = append(o, fi)
					}
				}
				schedules = append(schedules, o)
				// and the other way round
				var o2 []int
				for i, fi := range real(1) {
					if i != miss {
						o2 = append(o2, fi)
					}
				}
				o2 = append(o2, real(0)...)
				o2 = append(o2, real(2)...)
				schedules = append(schedules, o2)
			}
			for k := 0; k < 4; k++ {
				sh := append([]int{}, all...)
				for i := range sh {
					j := i + g.Intn(len(sh)-i)
					sh[i], sh[j] = sh[j], sh[i]
				}
				schedules = append(schedules, sh)
			}
			for _, order := range schedules {
				r.Eval(1)
				dels := c10Feed(net, layer, outer, frags, order)
				if c10Check(r, caseID+"-failed-tell", layer, msgs, frags, order, dels, innerMTU) > 0 {
					r.NonTrivial(fmt.Sprintf("%s/%d/failed-tell/parts=%d/fail=%d", layer.name, innerMTU, n, failAt))
				}
			}
		}
	}
}
