package main

import (
	"context"
	"fmt"
	"sync"
	"sync/atomic"
	"time"

	"verifharness/internal/ev"
	"verifharness/internal/gor"
	"verifharness/internal/rng"
)

//go:noinline
func c11ctxAsker(fn func()) { fn() }

// c11HandlerWaitsForContext: handlers that do nothing but wait for the context they were given (the well-behaved way to be
// slow), asked with deadlines of a few milliseconds. "Ask returns an error within the context's deadline" then depends on the
// library either returning without the handler or telling the handler that the asker gave up. A call is reported when its own
// context has ended, it is still pending in two observations one second apart with its goroutine parked at the same library
// frames, and its handler is still waiting on a context that has not ended. Every handler is released at the end of its case.
func c11HandlerWaitsForContext(r *ev.Run, st *Stack, g *rng.R, caseID string) {
	led := newLedger()
	type call struct {
		begun   atomic.Bool
		hctx    atomic.Value // context.Context of the handler invocation
		release chan struct{}
		byCtx   atomic.Bool
	}
	var mu sync.Mutex
	calls := map[uint32]*call{}
	sctx, scancel := context.WithCancel(context.Background())
	var swg sync.WaitGroup
	for l := 0; l < 3; l++ {
		swg.Add(1)
		go func() {
			defer swg.Done()
			for st.Nodes[0].ServeAsk(sctx, func(ctx context.Context, resp []byte, m Msg) int {
				cands := led.lookup(append([]byte{}, m.Payload...))
				if len(cands) == 0 {
					return -1
				}
				mu.Lock()
				c := calls[cands[0].Seq]
				mu.Unlock()
				if c == nil {
					return -1
				}
				c.hctx.Store(&ctx)
				c.begun.Store(true)
				select {
				case <-ctx.Done():
					c.byCtx.Store(true)
				case <-c.release:
				}
				return -1
			}) == nil {
			}
		}()
	}
	n := pick(r, 6, 24)
	var awg sync.WaitGroup
	var reported atomic.Bool
	for i := 0; i < n; i++ {
		lg := g.Fork()
		asker := 1 + i%(len(st.Nodes)-1)
		awg.Add(1)
		go func() {
			defer awg.Done()
			req := led.mk(lg, asker, 0, ledgerHdr+4+lg.Intn(40), 0)
			e := led.lookup(req)[0]
			c := &call{release: make(chan struct{})}
			mu.Lock()
			calls[e.Seq] = c
			mu.Unlock()
			defer close(c.release)
			ctx, cf := context.WithTimeout(context.Background(), time.Duration(5+lg.Intn(40))*time.Millisecond)
			defer cf()
			done := make(chan struct{})
			var gid atomic.Int64
			var nn int
			var err error
			go func() {
				defer close(done)
				gid.Store(int64(gor.Self()))
				c11ctxAsker(func() { nn, err = st.Nodes[asker].Ask(ctx, make([]byte, 64), 0, segmentOne(req)) })
			}()
			r.Eval(1)
			<-ctx.Done()
			observe := func() (pending bool, frames string, waiting bool) {
				select {
				case <-done:
					return false, "", false
				default:
				}
				frames = gor.ParkedIDs("main.c11ctxAsker")[int(gid.Load())]
				if c.begun.Load() && !c.byCtx.Load() {
					if hc, ok := c.hctx.Load().(*context.Context); ok && (*hc).Err() == nil {
						waiting = true
					}
				}
				return true, frames, waiting
			}
			wait := func() {
				select {
				case <-done:
				case <-time.After(time.Second):
				}
			}
			wait()
			p1, f1, w1 := observe()
			p2, f2, w2 := false, "", false
			if p1 {
				wait()
				p2, f2, w2 = observe()
			}
			if p1 && p2 {
				r.Count("ctx_wait_calls_still_pending_after_2s", 1)
				if f1 != "" && f1 == f2 && w1 && w2 && reported.CompareAndSwap(false, true) {
					r.Violate("C11/ask-outlives-its-context/handler-waiting-for-its-context/"+st.Name, caseID, "an Ask whose context has ended is parked inside the library while its handler is still waiting on the context it was given, which has not ended: neither did Ask return without the handler nor was the handler told that the asker gave up",
						map[string]any{"stack": st.Name, "asker": asker, "asker_frames": f1})
				}
			}
			// returning closes release (deferred): the handler goes, then the call
			if !p1 {
				if err == nil {
					r.Violate("C11/success-despite-handler-failure/"+st.Name, caseID, fmt.Sprintf("Ask returned (%d, nil) although its only handler invocation waited for the end of its context and returned -1", nn), map[string]any{"stack": st.Name})
				} else if c.begun.Load() {
					r.NonTrivial(st.Name + "/handler-waited-for-context")
				}
			}
		}()
	}
	awg.Wait()
	scancel()
	cd := make(chan struct{})
	go func() { st.CloseAll(); close(cd) }()
	select {
	case <-cd:
	case <-time.After(10 * time.Second):
		r.Count("teardown_blocked", 1)
	}
}

func segmentOne(b []byte) [][]byte { return [][]byte{append([]byte{}, b...)} }
