package main

import (
	"context"
	"fmt"
	"strings"
	"sync"
	"sync/atomic"
	"time"

	"go.brendoncarroll.net/p2p"
	"go.brendoncarroll.net/p2p/s/sshswarm"
	"golang.org/x/crypto/ssh"

	"verifharness/internal/ev"
	"verifharness/internal/rng"
)

// c04SSHFirstContact: on first contact with an sshswarm endpoint, a tell to the identity the node really holds and tells to
// other identities at the same ip:port start at the same moment (a stale address book). What is addressed to an identity the
// node does not hold must never be handed to it, however the dials interleave. Fresh nodes every round.
func c04SSHFirstContact(r *ev.Run, g *rng.R, caseID string) {
	rounds := pick(r, 16, 80)
	overlapped := 0
	for round := 0; round < rounds; round++ {
		r.Eval(1)
		srv, err := sshswarm.New("127.0.0.1:0", sshSigner(300))
		if err != nil {
			r.Inconclusive("c04 ssh first contact: " + err.Error())
			return
		}
		cli, err := sshswarm.New("127.0.0.1:0", sshSigner(301))
		if err != nil {
			srv.Close()
			r.Inconclusive("c04 ssh first contact: " + err.Error())
			return
		}
		ctx, cancel := context.WithCancel(context.Background())
		var wrongDelivered atomic.Int64
		var rightDelivered atomic.Int64
		var rwg sync.WaitGroup
		rwg.Add(1)
		go func() {
			defer rwg.Done()
			for srv.Receive(ctx, func(m p2p.Message[sshswarm.Addr]) {
				if strings.HasPrefix(string(m.Payload), "for-another-identity") {
					wrongDelivered.Add(1)
				} else {
					rightDelivered.Add(1)
				}
			}) == nil {
			}
		}()
		right := srv.LocalAddrs()[0]
		start := make(chan struct{})
		var wg sync.WaitGroup
		var wrongOK atomic.Int64
		tell := func(a sshswarm.Addr, payload string, delay time.Duration, ok *atomic.Int64) {
			defer wg.Done()
			<-start
			time.Sleep(delay)
			tctx, cf := context.WithTimeout(ctx, 3*time.Second)
			defer cf()
			if cli.Tell(tctx, a, p2p.IOVec{[]byte(payload)}) == nil && ok != nil {
				ok.Add(1)
			}
		}
		wg.Add(1)
		go tell(right, "for-the-right-identity", 0, nil)
		for k := 0; k < 3; k++ {
			wrong := right
			wrong.Fingerprint = ssh.FingerprintSHA256(sshSigner(310 + k).PublicKey())
			wg.Add(1)
			go tell(wrong, fmt.Sprintf("for-another-identity-%d", k), time.Duration(g.Intn(1500))*time.Microsecond, &wrongOK)
		}
		close(start)
		wg.Wait()
		time.Sleep(5 * time.Millisecond)
		if n := wrongDelivered.Load(); n > 0 {
			r.Violate("C04/wrong-identity-delivered/ssh", caseID, fmt.Sprintf("%d payloads addressed to other identities at the node's ip:port were handed to the node, which holds none of those keys (the tells started together with a tell to the node's real identity, on first contact)", n),
				map[string]any{"stack": "ssh", "round": round, "wrong_tells_reporting_success": wrongOK.Load()})
			round = rounds
		} else if wrongOK.Load() > 0 {
			r.Violate("C04/wrong-identity-accepted/ssh", caseID, "a Tell to identity X at node Y's ip:port reported success although Y does not hold X's key (first contact, together with a tell to Y's real identity)", map[string]any{"stack": "ssh", "round": round})
			round = rounds
		}
		if rightDelivered.Load() > 0 {
			overlapped++
		}
		cancel()
		cli.Close()
		srv.Close()
		rwg.Wait()
	}
	if overlapped > 0 {
		r.NonTrivial("ssh/first-contact-with-stale-identities")
	}
}
