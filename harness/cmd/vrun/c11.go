package main

import (
	"bytes"
	"context"
	"crypto/sha256"
	"encoding/binary"
	"fmt"
	"math"
	"strings"
	"sync"
	"sync/atomic"
	"time"

	"verifharness/internal/ev"
	"verifharness/internal/gor"
	"verifharness/internal/rng"
)

func init() { register("C11", runC11) }

// behaviours, encoded in the ledger entry's Tag
const (
	bhEcho     = 1 // respond with the derived response
	bhNegative = 2 // handler returns -1
	bhSlow     = 3 // respond after a delay
	bhBig      = 4 // derived response longer than the asker's buffer
)

type c11Invocation struct {
	resp []byte
	ret  int
}

type c11World struct {
	r       *ev.Run
	prop    string
	st      *Stack
	caseID  string
	led     *ledger
	secret  []byte
	mu      sync.Mutex
	invs    map[uint32][]c11Invocation // request seq -> handler invocations
	begun   map[uint32]bool
	inServ  [8]atomic.Int32 // handler invocations in progress per server
	maxConc atomic.Int32
}

// derive computes the response a given invocation produces.
func (w *c11World) derive(seq uint32, inv int, n int) []byte {
	out := make([]byte, 0, n+32)
	ctr := uint32(0)
	for len(out) < n {
		h := sha256.New()
		h.Write(w.secret)
		var b [12]byte
		binary.BigEndian.PutUint32(b[0:], seq)
		binary.BigEndian.PutUint32(b[4:], uint32(inv))
		binary.BigEndian.PutUint32(b[8:], ctr)
		h.Write(b[:])
		out = h.Sum(out)
		ctr++
	}
	return out[:n]
}

func (w *c11World) viol(sig, desc string, d map[string]any) {
	if d == nil {
		d = map[string]any{}
	}
	d["stack"] = w.st.Name
	w.r.Violate(w.prop+"/"+sig+"/"+w.st.Name, w.caseID, desc, d)
}

func respLenFor(seq uint32, mtu int) int {
	// response length is a function of the request so that the asker knows what buffer is "big enough"
	switch seq % 7 {
	case 0:
		return 0
	case 1:
		return 1
	case 2:
		return 17
	case 3:
		return min(mtu, 700)
	case 4:
		return min(mtu, 64)
	default:
		return min(mtu, int(seq*2654435761%1500))
	}
}

// handler is the ask handler of server node `srv`.
func (w *c11World) handler(srv int, lg *rng.R) func(ctx context.Context, resp []byte, m Msg) int {
	return func(ctx context.Context, resp []byte, m Msg) int {
		cur := w.inServ[srv].Add(1)
		defer w.inServ[srv].Add(-1)
		for {
			old := w.maxConc.Load()
			if cur <= old || w.maxConc.CompareAndSwap(old, cur) {
				break
			}
		}
		p := append([]byte{}, m.Payload...)
		cands := w.led.lookup(p)
		var e *lent
		for _, c := range cands {
			if c.Dst == srv && w.st.SrcNames(c.Sender, m.Src) {
				e = c
			}
		}
		if e == nil {
			if len(cands) == 0 {
				w.viol("handler-saw-unknown-request", "an ask handler was given a request nobody asked: "+describePayload(p), map[string]any{"server": srv, "len": len(p)})
			} else if cands[0].Dst != srv {
				w.viol("request-misdelivered", "an ask addressed to one node was served by another", map[string]any{"server": srv, "addressed_to": cands[0].Dst})
			} else {
				w.viol("handler-saw-wrong-source", "the request's source address does not name the asker", map[string]any{"server": srv, "asker": cands[0].Sender, "src": fmt.Sprint(m.Src)})
			}
			return -1
		}
		if !w.st.DstNames(srv, m.Dst) {
			w.viol("handler-saw-wrong-destination", "the request's destination address does not name the serving node", map[string]any{"server": srv, "dst": fmt.Sprint(m.Dst)})
		}
		w.mu.Lock()
		w.begun[e.Seq] = true
		inv := len(w.invs[e.Seq])
		w.invs[e.Seq] = append(w.invs[e.Seq], c11Invocation{ret: -2})
		w.mu.Unlock()
		finish := func(resp []byte, ret int) int {
			w.mu.Lock()
			w.invs[e.Seq][inv] = c11Invocation{resp: resp, ret: ret}
			w.mu.Unlock()
			return ret
		}
		mtu := w.st.Nodes[srv].MTU()
		switch e.Tag {
		case bhNegative:
			// scribble something into resp first: it must never surface as a success
			copy(resp, "NEGATIVE-RESPONSE-MUST-NOT-SURFACE")
			// every value < 0 signals failure, not only -1: magnitudes around the widths an error code may be squeezed into
			negs := []int{-1, -1, -2, -255, -256, -257, -512, -65535, -65536, math.MinInt32, math.MinInt}
			return finish(nil, negs[int(e.Seq)%len(negs)])
		case bhSlow:
			if e.Seq%2 == 0 {
				time.Sleep(time.Duration(200+lg.Intn(1500)) * time.Microsecond)
			}
		}
		want := w.derive(e.Seq, inv, respLenFor(e.Seq, mtu))
		if e.Tag == bhBig {
			want = w.derive(e.Seq, inv, min(mtu, 900))
		}
		if len(resp) < len(want) {
			// the buffer the swarm gave us cannot hold the response
			return finish(nil, -1)
		}
		n := copy(resp, want)
		if !bytes.Equal(m.Payload, p) {
			// the request is the handler's to read for as long as it runs
			w.viol("request-buffer-changed-during-handler", "the request payload handed to an ask handler was overwritten while the handler was still running", map[string]any{"server": srv, "request_seq": e.Seq, "request_len": len(p)})
		}
		if e.Tag == bhSlow && e.Seq%2 == 1 {
			// the handler has written its answer and keeps working for a while: the response buffer is its own until it returns
			time.Sleep(time.Duration(200+lg.Intn(1500)) * time.Microsecond)
			if !bytes.Equal(m.Payload, p) {
				w.viol("request-buffer-changed-during-handler", "the request payload handed to an ask handler was overwritten while the handler was still running", map[string]any{"server": srv, "request_seq": e.Seq, "request_len": len(p)})
			}
			if !bytes.Equal(resp[:n], want) {
				w.viol("handler-buffer-written-by-others", "the response buffer handed to an ask handler was overwritten while the handler was still running (it is shared with another invocation)", map[string]any{"server": srv, "request_seq": e.Seq, "response_len": n})
			}
		}
		return finish(want, n)
	}
}

//go:noinline
func c11asker(fn func()) { fn() }

//go:noinline
func c11server(fn func()) { fn() }

type c11Cfg struct {
	askers     int
	perAsker   int
	serveLoops int
	closeDst   bool // close server 1 at a random point
	allServe   bool // every node serves (no destination where asks go unanswered)
	closeIdle  bool // close the node where nobody serves while asks to it are waiting
}

func c11Run(r *ev.Run, st *Stack, g *rng.R, caseID string, cfg c11Cfg, prop string, judgePrompt bool) {
	w := &c11World{r: r, st: st, caseID: caseID, prop: prop, led: newLedger(), secret: g.Bytes(16), invs: map[uint32][]c11Invocation{}, begun: map[uint32]bool{}}
	n := len(st.Nodes)
	mtu := st.Nodes[0].MTU()
	sctx, scancel := context.WithCancel(context.Background())
	var swg sync.WaitGroup
	// nodes 0 and 1 serve, the last node never serves (unless allServe)
	unserved, nServe := n-1, n-1
	if cfg.allServe {
		unserved, nServe = -1, n
	}
	for srv := 0; srv < nServe; srv++ {
		for l := 0; l < cfg.serveLoops; l++ {
			srv := srv
			lg := g.Fork()
			swg.Add(1)
			go func() {
				defer swg.Done()
				c11server(func() {
					h := w.handler(srv, lg)
					for {
						if err := st.Nodes[srv].ServeAsk(sctx, h); err != nil {
							return
						}
					}
				})
			}()
		}
	}
	var closedAt atomic.Int64 // stamp order: 0 = not closed
	var stamp atomic.Int64
	var awg sync.WaitGroup
	var nOK, nErr, nAsks atomic.Int64
	type pendingAsk struct {
		seq  uint32
		dst  int
		done chan struct{}
		ctx  context.Context
		gid  int
	}
	var pmu sync.Mutex
	var pend []pendingAsk
	type lateBuf struct {
		buf []byte
		det map[string]any
	}
	var lateMu sync.Mutex
	var late []lateBuf
	for a := 0; a < cfg.askers; a++ {
		asker := a % n
		lg := g.Fork()
		awg.Add(1)
		go func() {
			defer awg.Done()
			gid := gor.Self()
			for i := 0; i < cfg.perAsker; i++ {
				dst := lg.Intn(n)
				if dst == asker {
					dst = (dst + 1) % n
				}
				beh := rng.Pick(lg, []int{bhEcho, bhEcho, bhEcho, bhSlow, bhNegative, bhBig})
				L := rng.Pick(lg, []int{0, 1, 17, 18, 40, 200, 1000, mtu - 1, mtu})
				if L > mtu {
					L = mtu
				}
				if L < 0 {
					L = 0
				}
				if L > 4096 && !lg.Chance(1, 6) {
					L = 4096
				}
				if L < ledgerHdr+4 {
					L = ledgerHdr + 4 + lg.Intn(8) // requests must be attributable
				}
				if L > mtu {
					continue
				}
				req := w.led.mk(lg, asker, dst, L, beh)
				e := w.led.lookup(req)[0]
				wantLen := respLenFor(e.Seq, st.Nodes[dst].MTU())
				bufLen := wantLen + lg.Intn(8)
				if beh == bhBig {
					bufLen = lg.Intn(min(st.Nodes[dst].MTU(), 900)) // strictly shorter than the response
				}
				resp := make([]byte, bufLen)
				for j := range resp {
					resp[j] = 0xAA
				}
				// context plan
				var ctx context.Context
				var cf context.CancelFunc
				plan := lg.Intn(10)
				if dst == unserved && plan > 2 {
					plan = lg.Intn(3) // nobody serves there: only contexts that end soon
					if cfg.closeIdle && lg.Bool() {
						plan = 3 // ... or, when that node is going to be closed, a deadline long enough to be waiting when it is
					}
				}
				switch {
				case plan == 0:
					ctx, cf = context.WithCancel(context.Background())
					cf()
				case plan == 1:
					ctx, cf = context.WithTimeout(context.Background(), time.Duration(lg.Intn(2000))*time.Microsecond)
				case plan == 2:
					ctx, cf = context.WithCancel(context.Background())
					time.AfterFunc(time.Duration(lg.Intn(3000))*time.Microsecond, cf)
				default:
					long := 1500 * time.Millisecond
					if closedAt.Load() != 0 {
						long = 300 * time.Millisecond // a destination may be gone: the error has to come within the deadline anyway
					}
					ctx, cf = context.WithTimeout(context.Background(), long)
				}
				v, _ := segment(lg, req)
				nAsks.Add(1)
				callStamp := stamp.Add(1)
				done := make(chan struct{})
				pmu.Lock()
				pend = append(pend, pendingAsk{e.Seq, dst, done, ctx, gid})
				pmu.Unlock()
				var nn int
				var err error
				c11asker(func() { nn, err = st.Nodes[asker].Ask(ctx, resp, dst, v) })
				close(done)
				cf()
				_ = callStamp
				det := func(extra map[string]any) map[string]any {
					d := map[string]any{"asker": asker, "server": dst, "request_len": L, "behaviour": beh, "resp_buf": bufLen, "n": nn, "err": fmt.Sprint(err)}
					for k, x := range extra {
						d[k] = x
					}
					return d
				}
				if err != nil {
					nErr.Add(1)
					// the call is over: the response buffer is the caller's again. Refill it and look again later: a reply that
					// was being copied when the call gave up must not land in it afterwards.
					if len(resp) > 0 {
						for j := range resp {
							resp[j] = 0xC3
						}
						lateMu.Lock()
						late = append(late, lateBuf{resp, det(nil)})
						lateMu.Unlock()
					}
					continue
				}
				nOK.Add(1)
				// success: must be exactly what one non-negative invocation for this very request produced
				w.mu.Lock()
				invs := append([]c11Invocation{}, w.invs[e.Seq]...)
				w.mu.Unlock()
				if nn < 0 || nn > len(resp) {
					w.viol("bad-length", fmt.Sprintf("Ask returned n=%d with a %d byte buffer", nn, len(resp)), det(nil))
					continue
				}
				matched := false
				anyNonNeg := false
				for _, iv := range invs {
					if iv.ret >= 0 {
						anyNonNeg = true
						if bytes.Equal(iv.resp, resp[:nn]) {
							matched = true
						}
					}
				}
				switch {
				case matched:
					if w.maxConc.Load() >= 2 {
						r.NonTrivial(fmt.Sprintf("%s/ok/req=%s/beh=%d", st.Name, lenClassOf(L, mtu, st.InnerMTU), beh))
					}
				case len(invs) == 0:
					sig := "success-without-handler"
					if closedAt.Load() != 0 && dst == 1 {
						sig = "success-from-closed-destination"
					}
					if dst == unserved {
						sig = "success-from-unserved-destination"
					}
					w.viol(sig, fmt.Sprintf("Ask returned (%d, nil) although no handler ran for this request", nn), det(nil))
				case !anyNonNeg:
					w.viol("success-despite-handler-failure", fmt.Sprintf("Ask returned (%d, nil) although the handler signalled failure (returned < 0)", nn), det(map[string]any{"response": hexShort(resp[:nn])}))
				default:
					// is it a truncation of the real response, or someone else's?
					trunc := false
					for _, iv := range invs {
						if iv.ret >= 0 && nn < len(iv.resp) && bytes.Equal(iv.resp[:nn], resp[:nn]) {
							trunc = true
						}
					}
					if trunc {
						w.viol("truncated-success", fmt.Sprintf("the response did not fit into the asker's %d byte buffer and Ask returned a truncated success (n=%d)", len(resp), nn), det(nil))
					} else {
						w.viol("wrong-response", "Ask succeeded with bytes that the handler invocation for this request did not produce", det(map[string]any{"got": hexShort(resp[:nn])}))
					}
				}
			}
		}()
	}
	// close the unserved destination while asks to it are waiting: they must end with an error, not with an empty success
	if cfg.closeIdle && unserved >= 0 {
		time.AfterFunc(time.Duration(500+g.Intn(3000))*time.Microsecond, func() {
			go st.Nodes[unserved].Close()
		})
	}
	// close destination 1 at a random point
	if cfg.closeDst {
		// not at a fixed time but once the askers are well under way (10-50% of the asks issued): then calls are in flight at
		// the node that closes, whatever the transport's pace
		total := int64(cfg.askers * cfg.perAsker)
		after := total/10 + int64(g.Intn(int(total*4/10)+1))
		go func() {
			for w := 0; w < 100000 && nAsks.Load() < after; w++ {
				time.Sleep(100 * time.Microsecond)
			}
			closedAt.Store(stamp.Add(1))
			st.Nodes[1].Close()
		}()
	}
	adone := make(chan struct{})
	go func() { awg.Wait(); close(adone) }()
	v, stacks := gor.WaitParked(adone, "main.c11asker", 15*time.Second, time.Second)
	r.Eval(nAsks.Load())
	if v == gor.Parked {
		// Promptness is judged per call, not per goroutine (an asker makes many calls from one goroutine): a call counts when
		// its context had ended, none of its handler invocations had begun, and it is still pending one second later, with
		// its goroutine parked at the same library frames at both instants.
		endedPending := func() map[uint64]int {
			out := map[uint64]int{}
			pmu.Lock()
			w.mu.Lock()
			for _, p := range pend {
				select {
				case <-p.done:
				default:
					if !w.begun[p.seq] && p.ctx.Err() != nil {
						out[uint64(p.seq)] = p.gid
					}
				}
			}
			w.mu.Unlock()
			pmu.Unlock()
			return out
		}
		p1, g1 := endedPending(), gor.ParkedIDs("main.c11asker")
		time.Sleep(time.Second)
		g2, p2 := gor.ParkedIDs("main.c11asker"), endedPending()
		judged := 0
		for seq, gid := range p1 {
			if _, still := p2[seq]; still && g1[gid] != "" && g1[gid] == g2[gid] {
				judged++
			}
		}
		if judged > 0 && judgePrompt {
			// what are the goroutines the parked calls wait for doing? (diagnosis only)
			var others []string
			for _, gg := range gor.Snapshot() {
				if (gg.Has("github.com/quic-go/quic-go") || gg.Has("golang.org/x/crypto/ssh.") || len(gg.LibFrames()) > 0) && !gg.Has("main.c11asker") && len(others) < 40 {
					others = append(others, gg.Text)
				}
			}
			r.Extra["c11_other_goroutines_"+st.Name] = strings.Join(others, "\n\n")
			w.viol("ask-blocked-after-context-ended", fmt.Sprintf("%d Ask calls whose context has ended (and for which no handler invocation ever began) are parked inside the library", judged), map[string]any{"stacks": stacks})
		} else {
			r.Inconclusive("c11 askers still waiting (live context or running handler) on " + st.Name)
			if len(stacks) > 6000 {
				stacks = stacks[:6000]
			}
			r.Extra["c11_waiting_"+st.Name] = stacks
		}
	} else if v == gor.Slow {
		r.Inconclusive("c11 askers slow on " + st.Name)
	}
	// response buffers of failed asks must still hold what the caller put there after the call returned
	time.Sleep(20 * time.Millisecond)
	lateMu.Lock()
	for _, lb := range late {
		for j, c := range lb.buf {
			if c != 0xC3 {
				lb.det["offset"], lb.det["buf_len"] = j, len(lb.buf)
				w.viol("response-buffer-written-after-return", "Ask returned an error, the caller reused its response buffer, and the library wrote into it afterwards", lb.det)
				break
			}
		}
	}
	r.Count("failed_ask_buffers_watched", int64(len(late)))
	lateMu.Unlock()
	scancel()
	cd := make(chan struct{})
	go func() { st.CloseAll(); close(cd) }()
	select {
	case <-cd:
	case <-time.After(10 * time.Second):
		r.Count("teardown_blocked", 1)
	}
	sd := make(chan struct{})
	go func() { swg.Wait(); close(sd) }()
	select {
	case <-sd:
	case <-time.After(5 * time.Second):
		r.Count("servers_left_behind", 1)
	}
	r.Count("asks_ok", nOK.Load())
	r.Count("asks_err", nErr.Load())
	r.Max("max_concurrent_handlers", int64(w.maxConc.Load()))
	if nOK.Load() == 0 {
		r.Inconclusive("no ask succeeded on " + st.Name)
	}
}

func askStacks() []stackFactory {
	var out []stackFactory
	want := map[string]bool{"mem": true, "secmem": true, "mbapp(mem)": true, "mux-string(mem)": true, "mux-varint(mem)": true, "multi{mem,mem}": true, "wl(mem)": true,
		"mux-uint16(mem)": true, "mux-uint32(mem)": true, "mux-uint64(mem)": true, "quic(mem)": true, "quic(udp)": true, "ssh": true, "mbapp(p2pke(mem))": true}
	for _, sf := range allStacks() {
		if want[sf.Name] {
			out = append(out, sf)
		}
	}
	return out
}

func runC11(r *ev.Run) {
	r.Rule = "per ask-capable stack: 3 nodes (two serve with 1-4 ServeAsk loops, one never serves), 2-16 concurrent askers, requests 18..MTU bytes (unique, self-describing), handlers {derived response, negative, slow, response longer than the asker's buffer}, contexts {live, pre-cancelled, deadline, cancelled soon}, optional Close of a server mid-run; a successful Ask must return exactly the bytes one non-negative invocation for that very request produced (responses are derived from request id, invocation number and a secret), handlers must see the request bytes and the asker's address; askers whose context ended before any handler began must not stay parked; response buffers of failed asks are refilled by the caller and must stay untouched; handlers that only wait for the context they were given, asked with deadlines of 5-45 ms: a call still pending in two observations a second apart after its context ended, parked at the same library frames, with its handler still waiting on a context that has not ended, is reported; cancel-races-reply family: large responses (up to 1 MiB, multi-part) with the cancellation drawn around the measured round-trip time. non-trivial = success while >=2 handler invocations overlapped at a server; distinct = (stack, request length class, behaviour)"
	g := rng.New(r.Seed, "C11", fmt.Sprint(r.Batch))
	idx := 0
	for _, sf := range askStacks() {
		if sf.Heavy && !isThorough(r) && sf.Name != "ssh" && sf.Name != "quic(mem)" {
			continue
		}
		reps := pick(r, 2, 6)
		extra := 0
		if sf.Name == "ssh" {
			extra = pick(r, 1, 3)
		}
		for rep := 0; rep < reps+extra; rep++ {
			idx++
			cg := g.Fork()
			if !r.Mine(idx) {
				continue
			}
			caseID := fmt.Sprintf("%s-%d", sf.Name, rep)
			if !r.Want(caseID) {
				continue
			}
			o := stackOptsFor(sf.Name, cg)
			st, err := sf.Build(o)
			if err != nil || !st.HasAsk {
				r.Inconclusive("cannot build ask stack " + sf.Name)
				continue
			}
			armStackHooks(cg)
			cfg := c11Cfg{askers: cg.Range(2, 16), perAsker: pick(r, 25, 60), serveLoops: cg.Range(1, 4), closeDst: rep%2 == 1, closeIdle: rep%2 == 0 && cg.Bool()}
			if sf.Heavy {
				cfg.perAsker = pick(r, 10, 30)
			}
			if sf.Name == "ssh" && rep >= reps {
				// On sshswarm an ask to a node where nobody serves never returns (open finding) and takes its asker goroutine
				// with it, so the ordinary runs see little concurrency there. In these extra runs every node serves.
				cfg.allServe, cfg.closeDst, cfg.serveLoops, cfg.askers, cfg.perAsker = true, false, 3, 12, pick(r, 30, 60)
			}
			c11Run(r, st, cg, caseID, cfg, "C11", true)
			if rep == 0 {
				r.Sample(map[string]any{"stack": st.Name, "askers": cfg.askers, "serve_loops": cfg.serveLoops, "close_destination": cfg.closeDst, "mtu": st.Nodes[0].MTU()})
			}
		}
	}
	runCancelRacesReply(r, "C11")
	runAskerRestart(r, "C11", g.Fork())
	runCloseUnserved(r, "C11", g.Fork())
	// handlers that wait for their context, asked with short deadlines
	for _, sf := range askStacks() {
		idx++
		cg := g.Fork()
		caseID := "handler-waits-for-context-" + sf.Name
		if sf.Heavy || !r.Mine(idx) || !r.Want(caseID) {
			continue
		}
		st, err := sf.Build(stackOptsFor(sf.Name, cg))
		if err != nil || !st.HasAsk {
			continue
		}
		c11HandlerWaitsForContext(r, st, cg, caseID)
	}
}
