package main

import (
	"encoding/binary"
	"errors"
	"io"
	"time"

	"github.com/flynn/noise"
	"go.brendoncarroll.net/p2p/f/x509"
	"go.brendoncarroll.net/p2p/p/p2pke"
	"go.brendoncarroll.net/tai64"
	"golang.org/x/crypto/blake2b"
	"google.golang.org/protobuf/proto"
)

// A raw P2PKE peer built directly on flynn/noise and the wire grammar: the harness's adversary.
// It holds its own long-term key and can put arbitrary key/sig fields into its handshake messages.

const (
	advPurposeCB = "p2pke/channel-binding"
	advPurposeTS = "p2pke/timestamp"
)

var advSuite = noise.NewCipherSuite(noise.DH25519, noise.CipherChaChaPoly, noise.HashBLAKE2b)

type rawPeer struct {
	key      testKey
	isInit   bool
	hs       *noise.HandshakeState
	out, in  noise.Cipher
	cbBefore []byte // channel binding before the RespHello message (what the responder signs)
	cbAfter  []byte // channel binding after the handshake (what the initiator signs)
	sendCtr  uint32
}

func newRawPeer(key testKey, isInit bool) *rawPeer {
	hs, err := noise.NewHandshakeState(noise.Config{Initiator: isInit, Pattern: noise.HandshakeNN, CipherSuite: advSuite})
	if err != nil {
		panic(err)
	}
	return &rawPeer{key: key, isInit: isInit, hs: hs, sendCtr: 16}
}

// seededReader is a deterministic byte stream: two raw peers built from the same seed draw the same ephemeral key.
type seededReader struct{ xof blake2b.XOF }

func (s seededReader) Read(p []byte) (int, error) { return s.xof.Read(p) }

func newRawPeerSeeded(key testKey, isInit bool, seed []byte) *rawPeer {
	x, err := blake2b.NewXOF(blake2b.OutputLengthUnknown, nil)
	if err != nil {
		panic(err)
	}
	x.Write(seed)
	hs, err := noise.NewHandshakeState(noise.Config{Initiator: isInit, Pattern: noise.HandshakeNN, CipherSuite: advSuite, Random: seededReader{x}})
	if err != nil {
		panic(err)
	}
	return &rawPeer{key: key, isInit: isInit, hs: hs, sendCtr: 16}
}

func advPresig(purpose string, msg []byte) []byte {
	h, err := blake2b.NewXOF(64, nil)
	if err != nil {
		panic(err)
	}
	h.Write([]byte{uint8(len(purpose))})
	h.Write([]byte(purpose))
	h.Write(msg)
	var ret [64]byte
	if _, err := io.ReadFull(h, ret[:]); err != nil {
		panic(err)
	}
	return ret[:]
}

// advSign signs msg for a purpose with the long-term key k (the harness holds every key, which
// stands for "a signature the honest owner produced in some other context").
func advSign(k testKey, purpose string, msg []byte) []byte {
	s, err := pkeReg.LoadSigner(&k.Priv)
	if err != nil {
		panic(err)
	}
	sig, err := s.Sign(nil, advPresig(purpose, msg))
	if err != nil {
		panic(err)
	}
	return sig
}

func advKeyBytes(k testKey) []byte { return x509.MarshalPublicKey(nil, &k.Pub) }

func hdr(ctr uint32) []byte {
	b := make([]byte, 4)
	binary.BigEndian.PutUint32(b, ctr)
	return b
}

// initHelloPayload builds the cleartext payload of an InitHello.
func initHelloPayload(ts time.Time, keyX509, sig []byte, tsBytes []byte) []byte {
	if tsBytes == nil {
		t := tai64.FromGoTime(ts).Marshal()
		tsBytes = t[:]
	}
	data, err := proto.Marshal(&p2pke.InitHello{Version: 1, TimestampTai64N: tsBytes, KeyX509: keyX509, Sig: sig})
	if err != nil {
		panic(err)
	}
	return append(data, byte(len(data)>>8), byte(len(data)))
}

// InitHelloWith produces message 0 with the given (already framed) payload.
func (p *rawPeer) InitHelloWith(payload []byte) []byte {
	msg, _, _, err := p.hs.WriteMessage(hdr(0), payload)
	if err != nil {
		panic(err)
	}
	return msg
}

// InitHelloOwn produces a truthful InitHello.
func (p *rawPeer) InitHelloOwn(ts time.Time) []byte {
	t := tai64.FromGoTime(ts).Marshal()
	sig := advSign(p.key, advPurposeTS, t[:])
	return p.InitHelloWith(initHelloPayload(ts, advKeyBytes(p.key), sig, t[:]))
}

// extractInitHelloPayload returns the cleartext payload (protobuf + length trailer) of a genuine InitHello.
func extractInitHelloPayload(m []byte) []byte {
	if len(m) < 4+32 {
		return nil
	}
	return append([]byte{}, m[4+32:]...)
}

// ReadRespHello processes message 1 as the initiator.
func (p *rawPeer) ReadRespHello(m []byte) (*p2pke.RespHello, error) {
	if len(m) < 4 {
		return nil, errors.New("short")
	}
	p.cbBefore = append([]byte{}, p.hs.ChannelBinding()...)
	pl, cs1, cs2, err := p.hs.ReadMessage(nil, m[4:])
	if err != nil {
		return nil, err
	}
	p.out, p.in = cs1.Cipher(), cs2.Cipher()
	p.cbAfter = append([]byte{}, p.hs.ChannelBinding()...)
	var rh p2pke.RespHello
	if err := proto.Unmarshal(pl, &rh); err != nil {
		return nil, err
	}
	return &rh, nil
}

// InitDone builds message 2 carrying the given signature bytes.
func (p *rawPeer) InitDone(sig []byte) []byte {
	pl, err := proto.Marshal(&p2pke.InitDone{Sig: sig})
	if err != nil {
		panic(err)
	}
	h := hdr(2)
	return p.out.Encrypt(h, 2, h, pl)
}

// ReadInitHello processes message 0 as the responder.
func (p *rawPeer) ReadInitHello(m []byte) error {
	if len(m) < 4 {
		return errors.New("short")
	}
	_, _, _, err := p.hs.ReadMessage(nil, m[4:])
	if err != nil {
		return err
	}
	p.cbBefore = append([]byte{}, p.hs.ChannelBinding()...)
	return nil
}

// RespHello builds message 1 with arbitrary key/sig fields.
func (p *rawPeer) RespHello(keyX509, sig []byte) []byte {
	pl, err := proto.Marshal(&p2pke.RespHello{KeyX509: keyX509, Sig: sig})
	if err != nil {
		panic(err)
	}
	msg, cs1, cs2, err := p.hs.WriteMessage(hdr(1), pl)
	if err != nil {
		panic(err)
	}
	// responder: out = cs2, in = cs1
	p.out, p.in = cs2.Cipher(), cs1.Cipher()
	p.cbAfter = append([]byte{}, p.hs.ChannelBinding()...)
	return msg
}

// ReadInitDone decrypts message 2 as the responder.
func (p *rawPeer) ReadInitDone(m []byte) (*p2pke.InitDone, error) {
	if len(m) < 4 || p.in == nil {
		return nil, errors.New("short or no keys")
	}
	pt, err := p.in.Decrypt(nil, 2, m[:4], m[4:])
	if err != nil {
		return nil, err
	}
	var id p2pke.InitDone
	if err := proto.Unmarshal(pt, &id); err != nil {
		return nil, err
	}
	return &id, nil
}

func (p *rawPeer) RespDone() []byte {
	h := hdr(3)
	return p.out.Encrypt(h, 3, h, nil)
}

// Data encrypts pt under the given counter.
func (p *rawPeer) Data(ctr uint32, pt []byte) []byte {
	h := hdr(ctr)
	return p.out.Encrypt(h, uint64(ctr), h, pt)
}

// NextData uses the peer's own running counter.
func (p *rawPeer) NextData(pt []byte) []byte {
	c := p.sendCtr
	p.sendCtr++
	return p.Data(c, pt)
}

// Open decrypts an incoming data (or done) message.
func (p *rawPeer) Open(m []byte) ([]byte, error) {
	if len(m) < 4 || p.in == nil {
		return nil, errors.New("short or no keys")
	}
	c := binary.BigEndian.Uint32(m[:4])
	return p.in.Decrypt(nil, uint64(c), m[:4], m[4:])
}
