package main

import (
	"bytes"
	"fmt"
	"sort"
	"time"

	"go.brendoncarroll.net/p2p"
	"go.brendoncarroll.net/p2p/p/kademlia"

	"verifharness/internal/ev"
	"verifharness/internal/rng"
)

// genIDNear makes a peer id sharing a chosen number of leading bits with base.
func genIDNear(g *rng.R, base p2p.PeerID) p2p.PeerID {
	id := base
	switch g.Intn(4) {
	case 0:
		g.Fill(id[:])
	default:
		p := g.Intn(256)
		if g.Chance(1, 2) {
			p = g.Intn(24)
		}
		id[p/8] ^= 0x80 >> uint(p%8)
		for j := p/8 + 1; j < 32; j++ {
			id[j] = byte(g.Intn(256))
		}
		if p%8 != 7 {
			id[p/8] ^= byte(g.Intn(1 << uint(7-p%8)))
		}
	}
	return id
}

func runC19DHTNode(r *ev.Run, g *rng.R) {
	n := pick(r, 30, 600)
	for i := 0; i < n; i++ {
		caseID := fmt.Sprintf("dhtnode-%d-%d", r.Batch, i)
		cg := g.Fork()
		if !r.Want(caseID) {
			continue
		}
		var local p2p.PeerID
		cg.Fill(local[:])
		size := rng.Pick(cg, []int{256, 256, 300, 400})
		node := kademlia.NewDHTNode(kademlia.DHTNodeParams{LocalID: local, PeerCacheSize: size, DataCacheSize: 64,
			Now: func() time.Time { return time.Unix(2_000_000, 0) }})
		nPeers := cg.Range(1, 60)
		for j := 0; j < nPeers; j++ {
			node.AddPeer(genIDNear(cg, local), []byte{byte(j)})
		}
		content := node.ListPeers(0)
		set := map[p2p.PeerID]bool{}
		for _, id := range content {
			set[id] = true
		}
		if len(set) != len(content) {
			r.Violate("C19/dhtnode-duplicate-peer", caseID, "ListPeers returned the same peer twice", nil)
			continue
		}
		for t := 0; t < 25; t++ {
			var q p2p.PeerID
			switch cg.Intn(4) {
			case 0:
				q = local
			case 1:
				if len(content) > 0 {
					q = genIDNear(cg, rng.Pick(cg, content))
				}
			default:
				q = genIDNear(cg, local)
			}
			limit := rng.Pick(cg, []int{0, 1, 2, 3, 5, 10, 11, 100, -1})
			r.Eval(1)
			det := map[string]any{"local": local.String(), "query": q.String(), "limit": limit, "peers": len(content)}
			var infos []kademlia.NodeInfo
			var closerGet, closerPut []kademlia.NodeInfo
			pan := func() (p any) {
				defer func() { p = recover() }()
				infos = node.ListNodeInfos(q[:], limit)
				res, _ := node.HandleFindNode(p2p.PeerID{}, kademlia.FindNodeReq{Target: q, Limit: limit})
				wantN := limit
				if wantN > 10 {
					wantN = 10
				}
				if wantN < 0 {
					wantN = 0
				}
				if wantN > len(content) {
					wantN = len(content)
				}
				if len(res.Nodes) != wantN {
					r.Violate("C19/findnode-count", caseID, fmt.Sprintf("HandleFindNode returned %d nodes, want %d", len(res.Nodes), wantN), det)
				}
				gr, _ := node.HandleGet(p2p.PeerID{}, kademlia.GetReq{Key: q[:]})
				closerGet = gr.Closer
				pr, _ := node.HandlePut(p2p.PeerID{}, kademlia.PutReq{Key: append([]byte{}, q[:]...), Value: []byte("v"), TTLms: 1000})
				closerPut = pr.Closer
				return nil
			}()
			if pan != nil {
				r.Violate("C19/panic/dhtnode", caseID, fmt.Sprintf("DHTNode query panicked: %v", pan), det)
				continue
			}
			wantN := limit
			if wantN < 0 {
				wantN = 0
			}
			if wantN > len(content) {
				wantN = len(content)
			}
			if len(infos) != wantN {
				r.Violate("C19/listnodeinfos-count", caseID, fmt.Sprintf("ListNodeInfos returned %d nodes, want %d", len(infos), wantN), det)
				continue
			}
			sorted := append([]p2p.PeerID{}, content...)
			sort.Slice(sorted, func(a, b int) bool {
				return bytes.Compare(kademlia.Distance(q[:], sorted[a][:]), kademlia.Distance(q[:], sorted[b][:])) < 0
			})
			ok := true
			for k := range infos {
				if !set[infos[k].ID] {
					r.Violate("C19/listnodeinfos-foreign", caseID, "ListNodeInfos returned a node that is not a known peer", det)
					ok = false
					break
				}
				if infos[k].ID != sorted[k] {
					det["position"] = k
					det["got"] = infos[k].ID.String()
					det["want"] = sorted[k].String()
					r.Violate("C19/listnodeinfos-not-nearest", caseID, "ListNodeInfos did not return the n nearest peers in order", det)
					ok = false
					break
				}
			}
			if !ok {
				continue
			}
			// closer sets
			want := map[p2p.PeerID]bool{}
			for _, id := range content {
				if bytes.Compare(kademlia.Distance(q[:], id[:]), kademlia.Distance(q[:], local[:])) < 0 {
					want[id] = true
				}
			}
			for name, got := range map[string][]kademlia.NodeInfo{"HandleGet": closerGet, "HandlePut": closerPut} {
				gs := map[p2p.PeerID]bool{}
				for _, ni := range got {
					gs[ni.ID] = true
				}
				for id := range want {
					if !gs[id] {
						r.Violate("C19/closer-missed/"+name, caseID, name+".Closer misses a peer nearer to the key than this node", det)
						break
					}
				}
				for id := range gs {
					if !want[id] {
						r.Violate("C19/closer-extra/"+name, caseID, name+".Closer contains a peer that is not nearer to the key than this node", det)
						break
					}
				}
			}
			if len(content) >= 3 && len(want) > 0 && len(want) < len(content) {
				r.NonTrivial(fmt.Sprintf("dhtnode/peers=%d/closer=%d/limit=%d", len(content)/10, len(want)/5, limit))
			}
		}
	}
}
