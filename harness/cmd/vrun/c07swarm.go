package main

import (
	"context"
	"fmt"
	"sync"
	"sync/atomic"
	"time"

	"go.brendoncarroll.net/p2p"
	"go.brendoncarroll.net/p2p/p/p2pke"
	"go.brendoncarroll.net/p2p/s/p2pkeswarm"

	"verifharness/internal/ev"
	"verifharness/internal/rng"
)

// c07SwarmAcrossHousekeeping: the property's "no matter what happened before" at the level of the swarm that owns the
// channels. p2pkeswarm runs a housekeeping pass every KeepAliveTimeout/2 (7.5 s, a package constant the timing override does
// not reach) that discards channels; a handshake that is in progress when the pass runs must survive it. Many pairs of swarms
// on one scripted network are created together (so that their passes coincide); in each pair A starts telling B a few seconds
// later while the network applies the pair's fault script (a class of handshake messages, or a direction, is lost); one second
// after the pass the network heals. From then on the logical clock is the number of handshake messages A has emitted and the
// network has delivered: if K=10 of them have gone by, at least 4 s have passed (longer than the 3 s a Tell waits for its
// channel, so a Tell begun after the heal is among the failed ones) and no Tell has returned nil, the pair is reported; a pair
// that merely has not finished when the case ends is inconclusive.
func init() { c07SwarmHook = c07SwarmAcrossHousekeeping }

func c07SwarmAcrossHousekeeping(r *ev.Run, g *rng.R, caseID string) {
	const K = 10
	tm := &p2pke.VerifTimings{HandshakeBackoff: 100 * time.Millisecond}
	p2pke.VerifSetChannelTimings(tm)
	defer p2pke.VerifSetChannelTimings(nil)
	type script struct {
		name string
		drop func(aToB bool, ctr uint32) bool
	}
	scripts := []script{
		{"none", func(bool, uint32) bool { return false }},
		{"InitDone", func(ab bool, c uint32) bool { return ab && c == 2 }},
		{"RespHello", func(ab bool, c uint32) bool { return !ab && c == 1 }},
		{"RespDone", func(ab bool, c uint32) bool { return !ab && c == 3 }},
		{"A-to-B", func(ab bool, c uint32) bool { return ab }},
		{"B-to-A", func(ab bool, c uint32) bool { return !ab }},
		{"InitDone+RespDone", func(ab bool, c uint32) bool { return (ab && c == 2) || (!ab && c == 3) }},
		{"all-but-InitHello", func(ab bool, c uint32) bool { return !(ab && c == 0) }},
		{"InitDone+data", func(ab bool, c uint32) bool { return ab && c >= 2 }},
	}
	starts := []time.Duration{5 * time.Second, 6500 * time.Millisecond, 7200 * time.Millisecond}
	type pair struct {
		sc        script
		start     time.Duration
		a, b      *p2pkeswarm.Swarm[wireAddr]
		bAddr     p2pkeswarm.Addr[wireAddr]
		emitted   atomic.Int64 // handshake messages of A delivered since the heal
		tellOK    atomic.Bool
		received  atomic.Bool
		tellFails atomic.Int64
		okAfter   atomic.Int64 // ns after the heal at which a Tell returned nil
	}
	var pairs []*pair
	for _, sc := range scripts {
		for _, st := range starts {
			pairs = append(pairs, &pair{sc: sc, start: st + time.Duration(g.Intn(200))*time.Millisecond})
		}
	}
	net := newWireNet(1500)
	var lossy, healed atomic.Bool
	lossy.Store(true)
	net.route = func(m *wireMsg) bool {
		pi := m.Src.N / 2
		if pi >= len(pairs) || m.Dst.N/2 != pi {
			return true
		}
		p := pairs[pi]
		ab := m.Src.N%2 == 0
		c, ok := msgCounter(m.Bytes)
		if !ok {
			return true
		}
		if lossy.Load() && p.sc.drop(ab, c) {
			return false
		}
		if healed.Load() && ab && c < 16 {
			p.emitted.Add(1)
		}
		return true
	}
	t0 := time.Now()
	for i, p := range pairs {
		p.a = p2pkeswarm.New[wireAddr](net.node(2*i), keyN(300+2*i).Priv)
		p.b = p2pkeswarm.New[wireAddr](net.node(2*i+1), keyN(301+2*i).Priv)
		p.bAddr = p.b.LocalAddrs()[0]
	}
	spread := time.Since(t0)
	ctx, cancel := context.WithCancel(context.Background())
	var wg sync.WaitGroup
	healAt := t0.Add(p2pke.KeepAliveTimeout/2 + time.Second + spread)
	endAt := healAt.Add(9 * time.Second)
	for i, p := range pairs {
		i, p := i, p
		want := fmt.Sprintf("c07-swarm-pair-%d", i)
		wg.Add(2)
		go func() {
			defer wg.Done()
			for ctx.Err() == nil {
				p.b.Receive(ctx, func(m p2p.Message[p2pkeswarm.Addr[wireAddr]]) {
					if string(m.Payload) == want {
						p.received.Store(true)
					}
				})
			}
		}()
		go func() {
			defer wg.Done()
			time.Sleep(time.Until(t0.Add(p.start)))
			for ctx.Err() == nil && time.Now().Before(endAt) {
				tctx, tcf := context.WithTimeout(ctx, 3500*time.Millisecond)
				err := p.a.Tell(tctx, p.bAddr, p2p.IOVec{[]byte(want)})
				tcf()
				if err == nil {
					if healed.Load() || p.sc.name == "none" {
						p.okAfter.Store(int64(time.Since(healAt)))
						p.tellOK.Store(true)
						return
					}
					// a Tell may return nil while the fault is on (the channel is up, the datagram is lost): keep going
					time.Sleep(50 * time.Millisecond)
					continue
				}
				p.tellFails.Add(1)
			}
		}()
	}
	time.Sleep(time.Until(healAt))
	lossy.Store(false)
	healed.Store(true)
	// verdicts
	reported := map[string]bool{}
	pending := len(pairs)
	decided := make([]bool, len(pairs))
	for pending > 0 && time.Now().Before(endAt.Add(500*time.Millisecond)) {
		time.Sleep(100 * time.Millisecond)
		for i, p := range pairs {
			if decided[i] {
				continue
			}
			if p.tellOK.Load() {
				decided[i] = true
				pending--
				r.Eval(1)
				if p.sc.name != "none" && p.tellFails.Load() > 0 {
					r.NonTrivial(fmt.Sprintf("swarm-housekeeping/%s/start=%ds", p.sc.name, int(p.start.Seconds())))
				}
				r.Count("swarm_housekeeping_pairs_recovered", 1)
				continue
			}
			if p.emitted.Load() >= K && time.Since(healAt) >= 4*time.Second {
				decided[i] = true
				pending--
				r.Eval(1)
				sig := "C07/swarm/no-progress-after-housekeeping/lost=" + p.sc.name
				if !reported[sig] {
					reported[sig] = true
					r.Violate(sig, caseID, fmt.Sprintf("p2pkeswarm pair: %s lost until one second after the responder swarm's housekeeping pass; since the network healed %d handshake messages of the teller were delivered and %.1f s passed, yet no Tell has returned nil", p.sc.name, p.emitted.Load(), time.Since(healAt).Seconds()),
						map[string]any{"lost": p.sc.name, "first_tell_at_s": p.start.Seconds(), "handshake_messages_delivered_since_heal": p.emitted.Load(), "failed_tells": p.tellFails.Load(), "payload_received": p.received.Load()})
				}
			}
		}
	}
	for i, p := range pairs {
		if !decided[i] {
			r.Eval(1)
			r.Inconclusive(fmt.Sprintf("c07 swarm housekeeping: pair lost=%s neither recovered nor made K retransmissions (%d) before the case ended", p.sc.name, p.emitted.Load()))
		}
	}
	cancel()
	var cwg sync.WaitGroup
	for _, p := range pairs {
		p := p
		cwg.Add(1)
		go func() { defer cwg.Done(); p.a.Close(); p.b.Close() }()
	}
	cd := make(chan struct{})
	go func() { cwg.Wait(); wg.Wait(); close(cd) }()
	select {
	case <-cd:
	case <-time.After(10 * time.Second):
	}
}
