package main

import (
	"context"
	"errors"
	"fmt"
	"reflect"
	"strconv"
	"sync"
	"sync/atomic"
	"time"

	"go.brendoncarroll.net/p2p"
	"go.brendoncarroll.net/p2p/f/x509"
	"go.brendoncarroll.net/p2p/p/mbapp"
	"go.brendoncarroll.net/p2p/p/p2pmux"
	"go.brendoncarroll.net/p2p/s/fragswarm"
	"go.brendoncarroll.net/p2p/s/mapswarm"
	"go.brendoncarroll.net/p2p/s/memswarm"
	"go.brendoncarroll.net/p2p/s/multiswarm"
	"go.brendoncarroll.net/p2p/s/p2pkeswarm"
	"go.brendoncarroll.net/p2p/s/quicswarm"
	"go.brendoncarroll.net/p2p/s/sshswarm"
	"go.brendoncarroll.net/p2p/s/udpswarm"
	"go.brendoncarroll.net/p2p/s/wlswarm"
	"golang.org/x/crypto/ssh"

	"verifharness/internal/rng"
)

// Msg is a type-erased message.
type Msg struct {
	Src, Dst p2p.Addr
	Payload  []byte
}

// Node is a type-erased view of one swarm instance of a stack.
type Node struct {
	Idx        int
	Tell       func(ctx context.Context, dst int, v p2p.IOVec) error
	TellAddr   func(ctx context.Context, dst p2p.Addr, v p2p.IOVec) error
	Receive    func(ctx context.Context, fn func(Msg)) error
	Ask        func(ctx context.Context, resp []byte, dst int, v p2p.IOVec) (int, error)
	AskAddr    func(ctx context.Context, resp []byte, dst p2p.Addr, v p2p.IOVec) (int, error)
	ServeAsk   func(ctx context.Context, fn func(ctx context.Context, resp []byte, m Msg) int) error
	MTU        func() int
	Close      func() error
	LocalAddrs func() []p2p.Addr
	ParseAddr  func([]byte) (p2p.Addr, error)
	// secure facet (nil if the stack is not secure)
	PublicKey       func() any
	LookupPublicKey func(ctx context.Context, a p2p.Addr) (any, error)
	LookupInHandler func(a p2p.Addr) (any, error) // LookupPublicKeyInHandler with panic capture
}

type Stack struct {
	Name   string
	Nodes  []*Node
	HasAsk bool
	Secure bool
	// SrcNames: does address a (seen as Src by someone) name node i as the sender?
	SrcNames func(i int, a p2p.Addr) bool
	// DstNames: does address a (seen as Dst by node i) name node i?
	DstNames func(i int, a p2p.Addr) bool
	// Extra teardown after the nodes have been closed (inner swarms the stack does not own)
	Teardown func()
	// InnerMTU is the MTU of the transport under a fragmenting layer (0 if n/a)
	InnerMTU int
}

func (s *Stack) CloseAll() {
	for _, n := range s.Nodes {
		n.Close()
	}
	if s.Teardown != nil {
		s.Teardown()
	}
}

type stackOpts struct {
	n        int
	innerMTU int // for mem transports
	outerMTU int // for frag/mbapp/quic
	queueLen int
	closeErr bool // the in-memory transport under the layer reports an error from Close (after closing)
	skew     bool // node i of a layer with a configurable MTU gets outerMTU>>i: peers that disagree about the limit
	lossy    bool // the in-memory link wipes and drops every fifth message (a tell transform that owns the message it is given)
}

func (o stackOpts) mtuOf(i int) int {
	if !o.skew {
		return o.outerMTU
	}
	m := o.outerMTU >> uint(i)
	if m < 1 {
		m = 1
	}
	return m
}

func (o stackOpts) skewTag() string {
	if o.skew {
		return ",skewed-mtu"
	}
	return ""
}

func (o stackOpts) withDefaults() stackOpts {
	if o.n == 0 {
		o.n = 3
	}
	if o.queueLen == 0 {
		o.queueLen = 256
	}
	return o
}

func memOpts(o stackOpts) []memswarm.Option {
	opts := []memswarm.Option{memswarm.WithQueueLen(o.queueLen)}
	if o.innerMTU > 0 {
		opts = append(opts, memswarm.WithMTU(o.innerMTU))
	}
	if o.lossy {
		var n atomic.Int64
		opts = append(opts, memswarm.WithTellTransform(func(m *memswarm.Message) bool {
			if n.Add(1)%5 != 0 {
				return true
			}
			for i := range m.Payload {
				m.Payload[i] = 0
			}
			return false
		}))
	}
	return opts
}

func eqAddr(a, b p2p.Addr) bool { return reflect.DeepEqual(a, b) }

// mkStack builds the type-erased view of a list of typed swarms.
func mkStack[A p2p.Addr](name string, swarms []p2p.Swarm[A]) *Stack {
	st := &Stack{Name: name}
	addrOf := func(j int) A { return swarms[j].LocalAddrs()[0] }
	for i := range swarms {
		i := i
		s := swarms[i]
		n := &Node{Idx: i}
		n.Tell = func(ctx context.Context, dst int, v p2p.IOVec) error { return s.Tell(ctx, addrOf(dst), v) }
		n.TellAddr = func(ctx context.Context, dst p2p.Addr, v p2p.IOVec) error { return s.Tell(ctx, dst.(A), v) }
		n.Receive = func(ctx context.Context, fn func(Msg)) error {
			return s.Receive(ctx, func(m p2p.Message[A]) { fn(Msg{Src: m.Src, Dst: m.Dst, Payload: m.Payload}) })
		}
		n.MTU = s.MTU
		n.Close = s.Close
		n.LocalAddrs = func() []p2p.Addr {
			var out []p2p.Addr
			for _, a := range s.LocalAddrs() {
				out = append(out, a)
			}
			return out
		}
		n.ParseAddr = func(b []byte) (p2p.Addr, error) { return s.ParseAddr(b) }
		if as, ok := s.(p2p.AskSwarm[A]); ok {
			st.HasAsk = true
			n.Ask = func(ctx context.Context, resp []byte, dst int, v p2p.IOVec) (int, error) {
				return as.Ask(ctx, resp, addrOf(dst), v)
			}
			n.AskAddr = func(ctx context.Context, resp []byte, dst p2p.Addr, v p2p.IOVec) (int, error) {
				return as.Ask(ctx, resp, dst.(A), v)
			}
			n.ServeAsk = func(ctx context.Context, fn func(context.Context, []byte, Msg) int) error {
				return as.ServeAsk(ctx, func(ctx context.Context, resp []byte, m p2p.Message[A]) int {
					return fn(ctx, resp, Msg{Src: m.Src, Dst: m.Dst, Payload: m.Payload})
				})
			}
		}
		st.Nodes = append(st.Nodes, n)
	}
	st.SrcNames = func(i int, a p2p.Addr) bool {
		for _, l := range swarms[i].LocalAddrs() {
			if eqAddr(l, a) {
				return true
			}
		}
		return false
	}
	st.DstNames = st.SrcNames
	return st
}

// stripAsk removes the ask facet (for stacks whose static type has none).
func stripAsk(st *Stack) {
	st.HasAsk = false
	for _, n := range st.Nodes {
		n.Ask, n.AskAddr, n.ServeAsk = nil, nil, nil
	}
}

// addSecure attaches the secure facet.
func addSecure[A p2p.Addr, Pub any](st *Stack, secs []p2p.Secure[A, Pub]) {
	st.Secure = true
	for i, n := range st.Nodes {
		sec := secs[i]
		n.PublicKey = func() any { return sec.PublicKey() }
		n.LookupPublicKey = func(ctx context.Context, a p2p.Addr) (any, error) { return sec.LookupPublicKey(ctx, a.(A)) }
		n.LookupInHandler = func(a p2p.Addr) (pk any, err error) {
			defer func() {
				if p := recover(); p != nil {
					err = fmt.Errorf("panic: %v", p)
				}
			}()
			return p2p.LookupPublicKeyInHandler[A, Pub](sec, a.(A)), nil
		}
	}
}

// ---------- factories ----------

func buildMem(o stackOpts) *Stack {
	o = o.withDefaults()
	realm := memswarm.NewRealm(memOpts(o)...)
	sw := make([]p2p.Swarm[memAddr], o.n)
	for i := range sw {
		sw[i] = realm.NewSwarm()
	}
	return mkStack("mem", sw)
}

func secMemSwarms(o stackOpts) []p2p.SecureAskSwarm[memAddr, x509.PublicKey] {
	realm := memswarm.NewSecureRealm[x509.PublicKey](memOpts(o)...)
	sw := make([]p2p.SecureAskSwarm[memAddr, x509.PublicKey], o.n)
	for i := range sw {
		sw[i] = realm.NewSwarm(keyN(100 + i).Pub)
	}
	return sw
}

func buildSecMem(o stackOpts) *Stack {
	o = o.withDefaults()
	ss := secMemSwarms(o)
	sw := make([]p2p.Swarm[memAddr], o.n)
	secs := make([]p2p.Secure[memAddr, x509.PublicKey], o.n)
	for i := range ss {
		sw[i], secs[i] = ss[i], ss[i]
	}
	st := mkStack("secmem", sw)
	addSecure(st, secs)
	return st
}

func buildUDP(o stackOpts, laddr string, name string) (*Stack, error) {
	o = o.withDefaults()
	sw := make([]p2p.Swarm[udpswarm.Addr], o.n)
	for i := range sw {
		s, err := udpswarm.New(laddr)
		if err != nil {
			for _, x := range sw[:i] {
				x.Close()
			}
			return nil, err
		}
		sw[i] = s
	}
	return mkStack(name, sw), nil
}

// errCloseSwarm: a lower layer whose Close does its work and then reports an error (a socket closed twice, a flush that failed).
type errCloseSwarm[A p2p.Addr] struct{ p2p.Swarm[A] }

func (s errCloseSwarm[A]) Close() error {
	s.Swarm.Close()
	return errors.New("lower layer: close reported an error")
}

func maybeCloseErr(o stackOpts, s p2p.Swarm[memAddr]) p2p.Swarm[memAddr] {
	if o.closeErr {
		return errCloseSwarm[memAddr]{s}
	}
	return s
}

func closeErrTag(o stackOpts) string {
	if o.closeErr {
		return ",close-error"
	}
	return ""
}

// closeErrStacks: layers over an in-memory transport whose Close reports an error (used by C12 only).
func closeErrStacks() []stackFactory {
	return []stackFactory{
		{"frag(mem,close-error)", false, func(o stackOpts) (*Stack, error) { o.closeErr = true; return ok(buildFragMem(o)) }},
		{"p2pke(mem,close-error)", false, func(o stackOpts) (*Stack, error) { o.closeErr = true; return ok(buildP2PKEMem(o)) }},
		{"quic(mem,close-error)", false, func(o stackOpts) (*Stack, error) { o.closeErr = true; return buildQUICMem(o) }},
	}
}

func buildFragMem(o stackOpts) *Stack {
	o = o.withDefaults()
	if o.innerMTU == 0 {
		o.innerMTU = 100
	}
	if o.outerMTU == 0 {
		o.outerMTU = 4 * o.innerMTU
	}
	realm := memswarm.NewRealm(memOpts(o)...)
	sw := make([]p2p.Swarm[memAddr], o.n)
	for i := range sw {
		sw[i] = fragswarm.New[memAddr](maybeCloseErr(o, realm.NewSwarm()), o.mtuOf(i))
	}
	st := mkStack(fmt.Sprintf("frag(mem,%d/%d%s%s)", o.innerMTU, o.outerMTU, o.skewTag(), closeErrTag(o)), sw)
	st.InnerMTU = o.innerMTU
	return st
}

func buildMbappMem(o stackOpts) *Stack {
	o = o.withDefaults()
	if o.innerMTU == 0 {
		o.innerMTU = 128
	}
	if o.outerMTU == 0 {
		o.outerMTU = 4 * o.innerMTU
	}
	ss := secMemSwarms(o)
	sw := make([]p2p.Swarm[memAddr], o.n)
	secs := make([]p2p.Secure[memAddr, x509.PublicKey], o.n)
	for i := range ss {
		m := mbapp.New[memAddr, x509.PublicKey](ss[i], o.mtuOf(i))
		sw[i], secs[i] = m, m
	}
	st := mkStack(fmt.Sprintf("mbapp(mem,%d/%d%s)", o.innerMTU, o.outerMTU, o.skewTag()), sw)
	addSecure(st, secs)
	st.InnerMTU = o.innerMTU
	return st
}

func buildMuxMem(o stackOpts, kind string) *Stack {
	o = o.withDefaults()
	realm := memswarm.NewRealm(memOpts(o)...)
	sw := make([]p2p.Swarm[memAddr], o.n)
	inner := make([]p2p.Swarm[memAddr], o.n)
	for i := range sw {
		x := realm.NewSwarm()
		inner[i] = x
		switch kind {
		case "string":
			sw[i] = p2pmux.NewStringAskMux[memAddr](x).Open("chan/α")
		case "varint":
			sw[i] = p2pmux.NewVarintAskMux[memAddr](x).Open(1 << 40)
		case "uint16":
			sw[i] = p2pmux.NewUint16AskMux[memAddr](x).Open(0xBEEF)
		case "uint32":
			sw[i] = p2pmux.NewUint32AskMux[memAddr](x).Open(0xDEADBEEF)
		default:
			sw[i] = p2pmux.NewUint64AskMux[memAddr](x).Open(1<<64 - 2)
		}
	}
	st := mkStack("mux-"+kind+"(mem)", sw)
	st.Teardown = func() {
		for _, x := range inner {
			x.Close()
		}
	}
	return st
}

func buildMultiMem(o stackOpts, mtuB int) *Stack {
	o = o.withDefaults()
	oa, ob := o, o
	if mtuB > 0 {
		ob.innerMTU = mtuB
	}
	r1 := memswarm.NewSecureRealm[x509.PublicKey](memOpts(oa)...)
	r2 := memswarm.NewSecureRealm[x509.PublicKey](memOpts(ob)...)
	sw := make([]p2p.Swarm[multiswarm.Addr], o.n)
	secs := make([]p2p.Secure[multiswarm.Addr, x509.PublicKey], o.n)
	for i := range sw {
		pub := keyN(100 + i).Pub
		m := map[string]multiswarm.DynSecureAskSwarm[x509.PublicKey]{
			"a": multiswarm.WrapSecureAskSwarm[memAddr, x509.PublicKey](r1.NewSwarm(pub)),
			"b": multiswarm.WrapSecureAskSwarm[memAddr, x509.PublicKey](r2.NewSwarm(pub)),
		}
		x := multiswarm.NewSecureAsk(m)
		sw[i], secs[i] = x, x
	}
	name := "multi{mem,mem}"
	if mtuB > 0 {
		name = fmt.Sprintf("multi{mem,mem:%d}", mtuB)
	}
	st := mkStack(name, sw)
	addSecure(st, secs)
	return st
}

// mappedAddr is the "above" address type of the mapswarm stack.
type mappedAddr struct{ Name string }

func (a mappedAddr) MarshalText() ([]byte, error) { return []byte(a.Name), nil }
func (a mappedAddr) String() string               { return a.Name }

func buildMapMem(o stackOpts) *Stack {
	o = o.withDefaults()
	realm := memswarm.NewRealm(memOpts(o)...)
	sw := make([]p2p.Swarm[mappedAddr], o.n)
	down := func(a mappedAddr) memAddr {
		n, _ := strconv.Atoi(a.Name[len("node-"):])
		return memAddr{N: n}
	}
	up := func(b memAddr) mappedAddr { return mappedAddr{Name: "node-" + strconv.Itoa(b.N)} }
	parse := func(b []byte) (mappedAddr, error) {
		if len(b) < 6 || string(b[:5]) != "node-" {
			return mappedAddr{}, fmt.Errorf("bad mapped addr")
		}
		if _, err := strconv.Atoi(string(b[5:])); err != nil {
			return mappedAddr{}, err
		}
		return mappedAddr{Name: string(b)}, nil
	}
	for i := range sw {
		sw[i] = mapswarm.New[mappedAddr, memAddr](realm.NewSwarm(), down, up, parse)
	}
	return mkStack("map(mem)", sw)
}

func buildWLMem(o stackOpts) *Stack {
	o = o.withDefaults()
	ss := secMemSwarms(o)
	sw := make([]p2p.Swarm[memAddr], o.n)
	secs := make([]p2p.Secure[memAddr, x509.PublicKey], o.n)
	for i := range ss {
		w := wlswarm.WrapSecureAsk[memAddr, x509.PublicKey](ss[i], func(memAddr) bool { return true })
		sw[i], secs[i] = w, w
	}
	st := mkStack("wl(mem)", sw)
	addSecure(st, secs)
	return st
}

func buildP2PKEMem(o stackOpts) *Stack {
	o = o.withDefaults()
	realm := memswarm.NewRealm(memOpts(o)...)
	type A = p2pkeswarm.Addr[memAddr]
	sw := make([]p2p.Swarm[A], o.n)
	secs := make([]p2p.Secure[A, x509.PublicKey], o.n)
	for i := range sw {
		s := p2pkeswarm.New[memAddr](maybeCloseErr(o, realm.NewSwarm()), keyN(100+i).Priv)
		sw[i], secs[i] = s, s
	}
	st := mkStack("p2pke(mem"+closeErrTag(o)+")", sw)
	addSecure(st, secs)
	return st
}

// buildP2PKEWire: p2pkeswarm nodes over the harness transport, which forwards every datagram and replays a good share of them
// (a second and sometimes a third copy, a little later, out of order with what follows).
func buildP2PKEWire(o stackOpts, g *rng.R) *Stack {
	o = o.withDefaults()
	net := newWireNet(1500)
	var gmu sync.Mutex
	net.route = func(m *wireMsg) bool {
		gmu.Lock()
		x, d1, d2 := g.Intn(10), g.Intn(400), g.Intn(3000)
		gmu.Unlock()
		if x < 4 {
			b := append([]byte{}, m.Bytes...)
			src, dst := m.Src, m.Dst
			time.AfterFunc(time.Duration(d1)*time.Microsecond, func() { net.inject(src, dst, b) })
			if x == 0 {
				time.AfterFunc(time.Duration(d2)*time.Microsecond, func() { net.inject(src, dst, b) })
			}
		}
		return true
	}
	type A = p2pkeswarm.Addr[wireAddr]
	sw := make([]p2p.Swarm[A], o.n)
	secs := make([]p2p.Secure[A, x509.PublicKey], o.n)
	for i := range sw {
		s := p2pkeswarm.New[wireAddr](net.node(i), keyN(100+i).Priv)
		sw[i], secs[i] = s, s
	}
	st := mkStack("p2pke(replaying-wire)", sw)
	addSecure(st, secs)
	return st
}

func buildP2PKEUDP(o stackOpts) (*Stack, error) {
	o = o.withDefaults()
	type A = p2pkeswarm.Addr[udpswarm.Addr]
	sw := make([]p2p.Swarm[A], o.n)
	secs := make([]p2p.Secure[A, x509.PublicKey], o.n)
	for i := range sw {
		u, err := udpswarm.New("127.0.0.1:0")
		if err != nil {
			return nil, err
		}
		s := p2pkeswarm.New[udpswarm.Addr](u, keyN(100+i).Priv)
		sw[i], secs[i] = s, s
	}
	st := mkStack("p2pke(udp)", sw)
	addSecure(st, secs)
	return st, nil
}

func buildQUICMem(o stackOpts) (*Stack, error) {
	o = o.withDefaults()
	realm := memswarm.NewRealm(memOpts(o)...)
	type A = quicswarm.Addr[memAddr]
	sw := make([]p2p.Swarm[A], o.n)
	secs := make([]p2p.Secure[A, x509.PublicKey], o.n)
	for i := range sw {
		var opts []quicswarm.Option[memAddr]
		if o.outerMTU > 0 {
			opts = append(opts, quicswarm.WithMTU[memAddr](o.mtuOf(i)))
		}
		s, err := quicswarm.New[memAddr](maybeCloseErr(o, realm.NewSwarm()), keyN(100+i).Priv, opts...)
		if err != nil {
			return nil, err
		}
		sw[i], secs[i] = s, s
	}
	st := mkStack("quic(mem"+closeErrTag(o)+")"+o.skewTag(), sw)
	addSecure(st, secs)
	return st, nil
}

func buildQUICUDP(o stackOpts) (*Stack, error) {
	o = o.withDefaults()
	type A = quicswarm.Addr[udpswarm.Addr]
	sw := make([]p2p.Swarm[A], o.n)
	secs := make([]p2p.Secure[A, x509.PublicKey], o.n)
	for i := range sw {
		s, err := quicswarm.NewOnUDP("127.0.0.1:0", keyN(100+i).Priv)
		if err != nil {
			return nil, err
		}
		sw[i], secs[i] = s, s
	}
	st := mkStack("quic(udp)", sw)
	addSecure(st, secs)
	return st, nil
}

func sshSigner(i int) ssh.Signer {
	s, err := ssh.NewSignerFromSigner(keyN(i).Std)
	if err != nil {
		panic(err)
	}
	return s
}

func buildSSH(o stackOpts) (*Stack, error) {
	o = o.withDefaults()
	sw := make([]p2p.Swarm[sshswarm.Addr], o.n)
	secs := make([]p2p.Secure[sshswarm.Addr, sshswarm.PublicKey], o.n)
	typed := make([]*sshswarm.Swarm, o.n)
	for i := range sw {
		s, err := sshswarm.New("127.0.0.1:0", sshSigner(100+i))
		if err != nil {
			return nil, err
		}
		sw[i], secs[i], typed[i] = s, s, s
	}
	st := mkStack("ssh", sw)
	addSecure(st, secs)
	// an SSH source address carries the sender's key fingerprint and the TCP endpoint of the connection, whose port is
	// ephemeral when the sender dialled: identity + IP decide.
	st.SrcNames = func(i int, a p2p.Addr) bool {
		x, ok := a.(sshswarm.Addr)
		if !ok {
			return false
		}
		l := typed[i].LocalAddrs()[0]
		return x.Fingerprint == l.Fingerprint && x.IP == l.IP
	}
	st.DstNames = func(i int, a p2p.Addr) bool {
		x, ok := a.(sshswarm.Addr)
		if !ok {
			return false
		}
		l := typed[i].LocalAddrs()[0]
		return x.Fingerprint == l.Fingerprint && x.IP == l.IP
	}
	return st, nil
}

// nestings

func buildFragP2PKEMem(o stackOpts) *Stack {
	o = o.withDefaults()
	if o.innerMTU == 0 {
		o.innerMTU = 200
	}
	realm := memswarm.NewRealm(memOpts(o)...)
	type A = p2pkeswarm.Addr[memAddr]
	sw := make([]p2p.Swarm[A], o.n)
	for i := range sw {
		s := p2pkeswarm.New[memAddr](realm.NewSwarm(), keyN(100+i).Priv)
		sw[i] = fragswarm.New[A](s, 4*o.innerMTU)
	}
	st := mkStack("frag(p2pke(mem))", sw)
	st.InnerMTU = o.innerMTU - p2pkeswarm.Overhead
	return st
}

func buildP2PKEFragMem(o stackOpts) *Stack {
	o = o.withDefaults()
	if o.innerMTU == 0 {
		o.innerMTU = 100
	}
	realm := memswarm.NewRealm(memOpts(o)...)
	type A = p2pkeswarm.Addr[memAddr]
	sw := make([]p2p.Swarm[A], o.n)
	secs := make([]p2p.Secure[A, x509.PublicKey], o.n)
	for i := range sw {
		f := fragswarm.New[memAddr](realm.NewSwarm(), 2000)
		s := p2pkeswarm.New[memAddr](f, keyN(100+i).Priv)
		sw[i], secs[i] = s, s
	}
	st := mkStack("p2pke(frag(mem))", sw)
	addSecure(st, secs)
	return st
}

func buildMuxFragMem(o stackOpts) *Stack {
	o = o.withDefaults()
	if o.innerMTU == 0 {
		o.innerMTU = 100
	}
	realm := memswarm.NewRealm(memOpts(o)...)
	sw := make([]p2p.Swarm[memAddr], o.n)
	inner := make([]p2p.Swarm[memAddr], o.n)
	for i := range sw {
		f := fragswarm.New[memAddr](realm.NewSwarm(), 1500)
		inner[i] = f
		sw[i] = p2pmux.NewStringMux[memAddr](f).Open("nested")
	}
	st := mkStack("mux(frag(mem))", sw)
	stripAsk(st) // a tell-only Mux: the Ask methods of the concrete type are not part of what Open returns
	st.Teardown = func() {
		for _, x := range inner {
			x.Close()
		}
	}
	return st
}

func buildMbappP2PKEMem(o stackOpts) *Stack {
	o = o.withDefaults()
	if o.innerMTU == 0 {
		o.innerMTU = 300
	}
	realm := memswarm.NewRealm(memOpts(o)...)
	type A = p2pkeswarm.Addr[memAddr]
	sw := make([]p2p.Swarm[A], o.n)
	secs := make([]p2p.Secure[A, x509.PublicKey], o.n)
	for i := range sw {
		s := p2pkeswarm.New[memAddr](realm.NewSwarm(), keyN(100+i).Priv)
		m := mbapp.New[A, x509.PublicKey](s, 2000)
		sw[i], secs[i] = m, m
	}
	st := mkStack("mbapp(p2pke(mem))", sw)
	addSecure(st, secs)
	return st
}

func buildWLP2PKEMem(o stackOpts) *Stack {
	o = o.withDefaults()
	realm := memswarm.NewRealm(memOpts(o)...)
	type A = p2pkeswarm.Addr[memAddr]
	sw := make([]p2p.Swarm[A], o.n)
	secs := make([]p2p.Secure[A, x509.PublicKey], o.n)
	for i := range sw {
		s := p2pkeswarm.New[memAddr](realm.NewSwarm(), keyN(100+i).Priv)
		w := wlswarm.WrapSecure[A, x509.PublicKey](s, func(A) bool { return true })
		sw[i], secs[i] = w, w
	}
	st := mkStack("wl(p2pke(mem))", sw)
	addSecure(st, secs)
	return st
}

// stackFactory names a stack and builds it.
type stackFactory struct {
	Name  string
	Heavy bool // QUIC/SSH/UDP-based or deep nesting: thorough tier only
	Build func(o stackOpts) (*Stack, error)
}

func ok(s *Stack) (*Stack, error) { return s, nil }

func allStacks() []stackFactory {
	return []stackFactory{
		{"mem", false, func(o stackOpts) (*Stack, error) { return ok(buildMem(o)) }},
		{"secmem", false, func(o stackOpts) (*Stack, error) { return ok(buildSecMem(o)) }},
		{"udp4", false, func(o stackOpts) (*Stack, error) { return buildUDP(o, "127.0.0.1:0", "udp4") }},
		{"frag(mem)", false, func(o stackOpts) (*Stack, error) { return ok(buildFragMem(o)) }},
		{"mbapp(mem)", false, func(o stackOpts) (*Stack, error) { return ok(buildMbappMem(o)) }},
		{"mux-string(mem)", false, func(o stackOpts) (*Stack, error) { return ok(buildMuxMem(o, "string")) }},
		{"mux-varint(mem)", false, func(o stackOpts) (*Stack, error) { return ok(buildMuxMem(o, "varint")) }},
		{"multi{mem,mem}", false, func(o stackOpts) (*Stack, error) { return ok(buildMultiMem(o, 0)) }},
		{"map(mem)", false, func(o stackOpts) (*Stack, error) { return ok(buildMapMem(o)) }},
		{"wl(mem)", false, func(o stackOpts) (*Stack, error) { return ok(buildWLMem(o)) }},
		{"p2pke(mem)", false, func(o stackOpts) (*Stack, error) { return ok(buildP2PKEMem(o)) }},
		{"udp6", true, func(o stackOpts) (*Stack, error) { return buildUDP(o, "[::1]:0", "udp6") }},
		{"mux-uint16(mem)", true, func(o stackOpts) (*Stack, error) { return ok(buildMuxMem(o, "uint16")) }},
		{"mux-uint32(mem)", true, func(o stackOpts) (*Stack, error) { return ok(buildMuxMem(o, "uint32")) }},
		{"mux-uint64(mem)", true, func(o stackOpts) (*Stack, error) { return ok(buildMuxMem(o, "uint64")) }},
		{"p2pke(udp)", true, buildP2PKEUDP},
		{"quic(mem)", true, buildQUICMem},
		{"quic(udp)", true, buildQUICUDP},
		{"ssh", true, buildSSH},
		{"frag(p2pke(mem))", true, func(o stackOpts) (*Stack, error) { return ok(buildFragP2PKEMem(o)) }},
		{"p2pke(frag(mem))", true, func(o stackOpts) (*Stack, error) { return ok(buildP2PKEFragMem(o)) }},
		{"mux(frag(mem))", true, func(o stackOpts) (*Stack, error) { return ok(buildMuxFragMem(o)) }},
		{"mbapp(p2pke(mem))", true, func(o stackOpts) (*Stack, error) { return ok(buildMbappP2PKEMem(o)) }},
		{"wl(p2pke(mem))", true, func(o stackOpts) (*Stack, error) { return ok(buildWLP2PKEMem(o)) }},
	}
}
