package main

import (
	"context"
	"crypto/tls"
	"encoding/binary"
	"fmt"
	"net"
	"sync/atomic"
	"time"

	"github.com/quic-go/quic-go"
	"go.brendoncarroll.net/p2p"
	"go.brendoncarroll.net/p2p/s/quicswarm"
	"go.brendoncarroll.net/p2p/s/swarmutil"
	"go.brendoncarroll.net/p2p/s/udpswarm"

	"verifharness/internal/rng"
)

// c08QUIC: a raw quic-go client that authenticates honestly (own self-signed certificate) and then writes hostile frames
// on ask streams and oversize / reset uni streams to a real quicswarm node.
func c08QUIC(c *c08Ctx) {
	g := c.g.Fork()
	const mtu = 4096
	srv, err := quicswarm.NewOnUDP("127.0.0.1:0", keyN(180).Priv, quicswarm.WithMTU[udpswarm.Addr](mtu))
	if err != nil {
		c.r.Inconclusive("c08 quic: cannot start server: " + err.Error())
		return
	}
	defer srv.Close()
	ctx, cancel := context.WithCancel(context.Background())
	defer cancel()
	var tells, asks atomic.Int64
	go func() {
		for {
			if err := srv.Receive(ctx, func(m p2p.Message[quicswarm.Addr[udpswarm.Addr]]) { tells.Add(1) }); err != nil {
				return
			}
		}
	}()
	go func() {
		for {
			if err := srv.ServeAsk(ctx, func(_ context.Context, resp []byte, m p2p.Message[quicswarm.Addr[udpswarm.Addr]]) int {
				asks.Add(1)
				return copy(resp, "pong")
			}); err != nil {
				return
			}
		}
	}()
	laddr := srv.LocalAddrs()[0].Addr
	target := fmt.Sprintf("127.0.0.1:%d", laddr.Port)
	cert := swarmutil.GenerateSelfSigned(keyN(181).Std)
	tlsConf := &tls.Config{Certificates: []tls.Certificate{cert}, InsecureSkipVerify: true, NextProtos: []string{"p2p"}}
	dctx, dcf := context.WithTimeout(ctx, 5*time.Second)
	conn, err := quic.DialAddr(dctx, target, tlsConf, &quic.Config{EnableDatagrams: true})
	dcf()
	if err != nil {
		c.r.Inconclusive("c08 quic: raw client cannot connect: " + err.Error())
		return
	}
	defer func() { conn.CloseWithError(0, "") }()
	// Streams the server abandons with unread data keep counting against this connection's stream limit; once opening a
	// stream stalls, carry on over a fresh connection instead of waiting out every further attempt.
	redial := func() {
		conn.CloseWithError(0, "")
		dctx, dcf := context.WithTimeout(ctx, 5*time.Second)
		if c2, err := quic.DialAddr(dctx, target, tlsConf, &quic.Config{EnableDatagrams: true}); err == nil {
			conn = c2
			c.r.Count("quic_reconnects", 1)
		}
		dcf()
	}
	frame := func(l uint32, body []byte) []byte {
		b := make([]byte, 4, 4+len(body))
		binary.BigEndian.PutUint32(b, l)
		return append(b, body...)
	}
	n := pick(c.r, 300, 1500)
	for i := 0; i < n; i++ {
		var in []byte
		kind := ""
		reset := false
		uni := false
		switch g.Intn(10) {
		case 0:
			in, kind = frame(uint32(mtu+1+g.Intn(100)), g.Bytes(g.Intn(64))), "length>mtu"
		case 1:
			in, kind = frame(uint32(50+g.Intn(200)), g.Bytes(g.Intn(40))), "length>remaining"
		case 2:
			in, kind = frame(0, nil), "zero-length"
		case 3:
			in, kind = g.Bytes(g.Intn(4)), "half-header"
		case 4:
			in, kind = frame(uint32(rng.Pick(g, interesting)), g.Bytes(g.Intn(16))), "boundary-length"
		case 5:
			in, kind, reset = frame(1000, g.Bytes(100)), "reset-mid-frame", true
		case 6:
			in, kind, uni = g.Bytes(mtu+1+g.Intn(3000)), "uni>mtu", true
		case 7:
			in, kind, uni, reset = g.Bytes(g.Intn(500)), "uni-reset", true, true
		case 8:
			in, kind, uni = nil, "uni-empty", true
		default:
			in, kind = frame(uint32(10), g.Bytes(10)), "valid-ask"
		}
		c.record("quicswarm/"+kind, in)
		sctx, scf := context.WithTimeout(ctx, 500*time.Millisecond)
		if uni {
			if s, err := conn.OpenUniStreamSync(sctx); err != nil {
				redial()
			} else {
				s.Write(in)
				if reset {
					s.CancelWrite(7)
				} else {
					s.Close()
				}
			}
		} else {
			if s, err := conn.OpenStreamSync(sctx); err != nil {
				redial()
			} else {
				s.Write(in)
				if reset {
					s.CancelWrite(7)
					s.CancelRead(7)
				} else {
					s.Close()
					s.CancelRead(0)
				}
			}
		}
		scf()
		c.r.NonTrivial("quic/" + kind)
	}
	c08QUICHostileServer(c, srv, ctx, g)
	// liveness: an honest quicswarm client must still be served
	cl, err := quicswarm.NewOnUDP("127.0.0.1:0", keyN(182).Priv)
	if err != nil {
		c.r.Inconclusive("c08 quic: probe client: " + err.Error())
		return
	}
	defer cl.Close()
	ok := false
	for try := 0; try < 5 && !ok; try++ {
		pctx, pcf := context.WithTimeout(ctx, 3*time.Second)
		resp := make([]byte, 16)
		nn, err := cl.Ask(pctx, resp, srv.LocalAddrs()[0], p2p.IOVec{[]byte("ping")})
		pcf()
		ok = err == nil && string(resp[:nn]) == "pong"
	}
	if !ok {
		c.r.Violate("C08/not-serving/quicswarm", "layers", "after hostile frames from one client the node no longer answers an honest client's ask", map[string]any{"tells_seen": tells.Load(), "asks_seen": asks.Load()})
	} else {
		c.r.NonTrivial("layer/quicswarm/survived-and-serving")
	}
	c.r.Count("quic_hostile_streams", int64(n))
}

// c08QUICHostileServer: the node under test asks a raw quic-go server (honest TLS identity) that answers with hostile response
// frames: longer than the asker's buffer, longer than the MTU, length without body, nothing, reset.
func c08QUICHostileServer(c *c08Ctx, node *quicswarm.Swarm[udpswarm.Addr], ctx context.Context, g *rng.R) {
	key := keyN(183)
	cert := swarmutil.GenerateSelfSigned(key.Std)
	ln, err := quic.ListenAddr("127.0.0.1:0", &tls.Config{Certificates: []tls.Certificate{cert}, NextProtos: []string{"p2p"}, ClientAuth: tls.RequireAnyClientCert, InsecureSkipVerify: true}, &quic.Config{EnableDatagrams: true})
	if err != nil {
		c.r.Count("quic_hostile_server_listen_failed", 1)
		return
	}
	defer ln.Close()
	lctx, lcf := context.WithCancel(ctx)
	defer lcf()
	var kind atomic.Value
	kind.Store("valid")
	frame := func(l uint32, body []byte) []byte {
		b := make([]byte, 4, 4+len(body))
		binary.BigEndian.PutUint32(b, l)
		return append(b, body...)
	}
	go func() {
		for {
			conn, err := ln.Accept(lctx)
			if err != nil {
				return
			}
			go func() {
				for {
					s, err := conn.AcceptStream(lctx)
					if err != nil {
						return
					}
					go func() {
						buf := make([]byte, 4096)
						s.Read(buf)
						switch kind.Load().(string) {
						case "resp>buffer":
							s.Write(frame(100, make([]byte, 100)))
						case "resp>mtu":
							s.Write(frame(1<<20+1, make([]byte, 64)))
						case "resp-length-only":
							s.Write(frame(50, nil))
						case "resp-huge-length":
							s.Write(frame(0xffffffff, make([]byte, 8)))
						case "resp-half-header":
							s.Write([]byte{0, 0})
						case "resp-reset":
							s.CancelWrite(9)
							return
						default:
							s.Write(frame(4, []byte("pong")))
						}
						s.Close()
					}()
				}
			}()
		}
	}()
	port := ln.Addr().(*net.UDPAddr).Port
	dst, perr := node.ParseAddr([]byte(fmt.Sprintf("%s@127.0.0.1:%d", quicswarm.DefaultFingerprinter(key.Pub).String(), port)))
	if perr != nil {
		c.r.Count("quic_hostile_server_addr_failed", 1)
		return
	}
	kinds := []string{"valid", "resp>buffer", "resp>mtu", "resp-length-only", "resp-huge-length", "resp-half-header", "resp-reset", "resp>buffer", "valid"}
	for i := 0; i < 3*len(kinds); i++ {
		k := kinds[i%len(kinds)]
		kind.Store(k)
		bufLen := rng.Pick(g, []int{0, 4, 16, 64})
		c.record(fmt.Sprintf("quicswarm/ask-answered-with(%s,asker_buffer=%d)", k, bufLen), nil)
		actx, acf := context.WithTimeout(ctx, 500*time.Millisecond)
		node.Ask(actx, make([]byte, bufLen), dst, p2p.IOVec{[]byte("request")})
		acf()
		c.r.NonTrivial("quic/hostile-response/" + k)
	}
}
