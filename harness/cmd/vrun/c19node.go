package main

import (
	"fmt"
	"sort"

	"go.brendoncarroll.net/p2p"
	"go.brendoncarroll.net/p2p/p/kademlia"

	"verifharness/internal/ev"
	"verifharness/internal/rng"
)

// c19DHTNodeCloser: the "closer than me" lists a DHTNode returns from HandleGet and HandlePut (the path iterative lookups walk):
// all and only the peers nearer to the request key than the node itself, by brute force over Distance(), for keys shorter than,
// as long as and longer than a peer id, and peers that share prefixes of every length with the node's own id.
func c19DHTNodeCloser(r *ev.Run, g *rng.R, caseID string) {
	var local p2p.PeerID
	g.Fill(local[:])
	node := kademlia.NewDHTNode(kademlia.DHTNodeParams{LocalID: local, PeerCacheSize: 1024, DataCacheSize: 64})
	var peers []p2p.PeerID
	for i := 0; i < g.Range(6, 40); i++ {
		var id p2p.PeerID
		g.Fill(id[:])
		if i%2 == 0 {
			copy(id[:], local[:g.Intn(32)]) // shares a prefix with the node: ties on short keys, deep buckets
		}
		if node.AddPeer(id, []byte{byte(i)}) {
			peers = append(peers, id)
		}
	}
	var from p2p.PeerID
	g.Fill(from[:])
	for q := 0; q < pick(r, 60, 400); q++ {
		var key []byte
		switch g.Intn(5) {
		case 0:
			key = append([]byte{}, local[:g.Range(1, 31)]...) // a prefix of the node's id
		case 1:
			key = g.Bytes(g.Range(1, 8))
		case 2:
			key = append(append([]byte{}, local[:g.Intn(32)]...), g.Bytes(g.Range(1, 4))...)
		case 3:
			key = g.Bytes(32 + g.Intn(9))
		default:
			key = g.Bytes(32)
		}
		want := map[p2p.PeerID]bool{}
		for _, id := range peers {
			if node.HasPeer(id) && distCmp(key, string(id[:]), string(local[:])) < 0 {
				want[id] = true
			}
		}
		var closer []kademlia.NodeInfo
		via := "get"
		if g.Bool() {
			res, err := node.HandleGet(from, kademlia.GetReq{Key: key})
			if err != nil {
				continue
			}
			closer = res.Closer
		} else {
			via = "put"
			res, err := node.HandlePut(from, kademlia.PutReq{Key: key, Value: []byte("v"), TTLms: 1000})
			if err != nil {
				continue
			}
			closer = res.Closer
		}
		r.Eval(1)
		got := map[p2p.PeerID]bool{}
		for _, ni := range closer {
			got[ni.ID] = true
		}
		var extra, missing []string
		for id := range got {
			if !want[id] {
				extra = append(extra, id.String()[:8])
			}
		}
		for id := range want {
			if !got[id] {
				missing = append(missing, id.String()[:8])
			}
		}
		sort.Strings(extra)
		sort.Strings(missing)
		det := map[string]any{"key": fmt.Sprintf("%x", key), "key_len": len(key), "local": fmt.Sprintf("%x", local[:]), "via": via, "extra": extra, "missing": missing}
		if len(extra) > 0 {
			r.Violate("C19/dhtnode-closer-extra", caseID, "a DHTNode's closer list names a peer that is not nearer to the key than the node itself", det)
			return
		}
		if len(missing) > 0 {
			r.Violate("C19/dhtnode-closer-missed", caseID, "a DHTNode's closer list leaves out a peer that is nearer to the key than the node itself", det)
			return
		}
		if len(want) > 0 {
			r.NonTrivial(fmt.Sprintf("dhtnode-closer/keylen=%d/n=%d", min(len(key), 40)/8, min(len(want), 8)))
		}
	}
}
