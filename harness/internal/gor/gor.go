// Package gor takes goroutine snapshots and implements the two-stage "parked, not slow" test.
package gor

import (
	"regexp"
	"runtime"
	"strconv"
	"strings"
	"time"
)

type G struct {
	ID     int
	State  string
	Frames []string // function names, innermost first
	Text   string
}

var hdrRe = regexp.MustCompile(`^goroutine (\d+) \[([^\]]+)\]:`)

// Snapshot returns all goroutines.
func Snapshot() []G {
	buf := make([]byte, 1<<20)
	for {
		n := runtime.Stack(buf, true)
		if n < len(buf) {
			buf = buf[:n]
			break
		}
		buf = make([]byte, 2*len(buf))
	}
	var out []G
	for _, blk := range strings.Split(string(buf), "\n\n") {
		lines := strings.Split(blk, "\n")
		m := hdrRe.FindStringSubmatch(lines[0])
		if m == nil {
			continue
		}
		id, _ := strconv.Atoi(m[1])
		state := m[2]
		if i := strings.Index(state, ","); i >= 0 {
			state = state[:i]
		}
		g := G{ID: id, State: state, Text: blk}
		for _, l := range lines[1:] {
			if l == "" || l[0] == '\t' || strings.HasPrefix(l, "created by") {
				continue
			}
			if i := strings.LastIndex(l, "("); i > 0 {
				l = l[:i]
			}
			g.Frames = append(g.Frames, l)
		}
		out = append(out, g)
	}
	return out
}

// IsParked reports whether a goroutine state is a blocked (not running / runnable) one.
func IsParked(state string) bool {
	switch state {
	case "select", "chan receive", "chan send", "IO wait", "semacquire", "sync.Cond.Wait", "sync.Mutex.Lock", "sync.RWMutex.RLock", "sync.RWMutex.Lock", "select (no cases)", "chan receive (nil chan)", "chan send (nil chan)", "sleep":
		return true
	}
	return false
}

func (g G) Has(substr string) bool {
	for _, f := range g.Frames {
		if strings.Contains(f, substr) {
			return true
		}
	}
	return false
}

// LibFrames returns the frames inside the library under test.
func (g G) LibFrames() []string {
	var out []string
	for _, f := range g.Frames {
		if strings.HasPrefix(f, "go.brendoncarroll.net/p2p/") && !strings.Contains(f, "/verifhook.") {
			out = append(out, f)
		}
	}
	return out
}

// Find returns the goroutines having a frame that contains marker.
func Find(snap []G, marker string) []G {
	var out []G
	for _, g := range snap {
		if g.Has(marker) {
			out = append(out, g)
		}
	}
	return out
}

// Verdict of the parked test.
type Verdict int

const (
	Returned Verdict = iota
	Parked
	Slow
)

// WaitParked waits for done; if the watchdog passes it decides whether the goroutines carrying marker are
// parked in library frames in two snapshots gap apart (=> Parked, with their stacks) or merely slow.
func WaitParked(done <-chan struct{}, marker string, watchdog, gap time.Duration) (Verdict, string) {
	select {
	case <-done:
		return Returned, ""
	case <-time.After(watchdog):
	}
	s1 := Find(Snapshot(), marker)
	select {
	case <-done:
		return Returned, ""
	case <-time.After(gap):
	}
	s2 := Find(Snapshot(), marker)
	select {
	case <-done:
		return Returned, ""
	default:
	}
	by := map[int]G{}
	for _, g := range s1 {
		by[g.ID] = g
	}
	var texts []string
	for _, g := range s2 {
		p, ok := by[g.ID]
		if !ok || !IsParked(g.State) || !IsParked(p.State) {
			continue
		}
		lf1, lf2 := strings.Join(p.LibFrames(), "|"), strings.Join(g.LibFrames(), "|")
		if lf1 == "" || lf1 != lf2 {
			continue
		}
		texts = append(texts, g.Text)
	}
	if len(texts) > 0 {
		return Parked, strings.Join(texts, "\n\n")
	}
	return Slow, ""
}

// Self returns the id of the calling goroutine.
func Self() int {
	buf := make([]byte, 64)
	buf = buf[:runtime.Stack(buf, false)]
	// "goroutine 123 [running]:"
	id := 0
	for _, c := range buf[len("goroutine "):] {
		if c < '0' || c > '9' {
			break
		}
		id = id*10 + int(c-'0')
	}
	return id
}

// ParkedIDs returns, for the goroutines carrying marker, id -> joined library frames of those currently parked inside the
// library.
func ParkedIDs(marker string) map[int]string {
	out := map[int]string{}
	for _, g := range Find(Snapshot(), marker) {
		if lf := strings.Join(g.LibFrames(), "|"); lf != "" && IsParked(g.State) {
			out[g.ID] = lf
		}
	}
	return out
}
