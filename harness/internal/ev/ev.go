// Package ev is the result / violation / evidence accumulator shared by every monitor.
package ev

import (
	"encoding/json"
	"fmt"
	"os"
	"path/filepath"
	"sort"
	"sync"
	"time"
)

// Viol is one violation found by a monitor.
type Viol struct {
	Property string `json:"property"`
	// Sig is the stable signature used to match known findings: monitor/site-or-input-class.
	Sig    string `json:"sig"`
	Case   string `json:"case"`
	Desc   string `json:"desc"`
	Detail any    `json:"detail,omitempty"`
	Replay string `json:"replay,omitempty"`
}

// Run accumulates what one child process observed.
type Run struct {
	mu sync.Mutex

	Property string
	Tier     string
	Seed     int64
	Batch    int
	NBatch   int
	OutDir   string
	// Only, if non-empty, restricts execution to the case with this id (replay).
	Only string

	start        time.Time
	evaluations  int64
	distinct     map[string]struct{}
	samples      []any
	counters     map[string]int64
	viols        []Viol
	violCount    map[string]int
	inconclusive []string
	Rule         string
	Assumptions  []string
	Exhaustive   bool
	Extra        map[string]any
}

func NewRun(property, tier string, seed int64, batch, nbatch int, outDir string) *Run {
	return &Run{
		Property: property, Tier: tier, Seed: seed, Batch: batch, NBatch: nbatch, OutDir: outDir,
		start:     time.Now(),
		distinct:  map[string]struct{}{},
		counters:  map[string]int64{},
		violCount: map[string]int{},
		Extra:     map[string]any{},
	}
}

// Want reports whether the case with this id should be executed.
func (r *Run) Want(caseID string) bool {
	return r.Only == "" || r.Only == caseID
}

// Mine reports whether case number i belongs to this batch.
func (r *Run) Mine(i int) bool {
	if r.NBatch <= 1 {
		return true
	}
	return i%r.NBatch == r.Batch
}

func (r *Run) Eval(n int64) {
	r.mu.Lock()
	r.evaluations += n
	r.mu.Unlock()
}

// NonTrivial records that a case with the given abstract signature was non-trivial.
func (r *Run) NonTrivial(sig string) {
	r.mu.Lock()
	r.distinct[sig] = struct{}{}
	r.mu.Unlock()
}

func (r *Run) Distinct() int {
	r.mu.Lock()
	defer r.mu.Unlock()
	return len(r.distinct)
}

// Sample keeps up to 6 literal cases for the evidence file.
func (r *Run) Sample(x any) {
	r.mu.Lock()
	if len(r.samples) < 6 {
		r.samples = append(r.samples, x)
	}
	r.mu.Unlock()
}

func (r *Run) Count(name string, n int64) {
	r.mu.Lock()
	r.counters[name] += n
	r.mu.Unlock()
}

func (r *Run) Counter(name string) int64 {
	r.mu.Lock()
	defer r.mu.Unlock()
	return r.counters[name]
}

// Max records the maximum of a gauge.
func (r *Run) Max(name string, n int64) {
	r.mu.Lock()
	if n > r.counters[name] {
		r.counters[name] = n
	}
	r.mu.Unlock()
}

// Violate records a violation. At most 3 witnesses are kept per signature; all are counted.
func (r *Run) Violate(sig, caseID, desc string, detail any) {
	r.mu.Lock()
	defer r.mu.Unlock()
	r.violCount[sig]++
	if r.violCount[sig] > 3 {
		return
	}
	v := Viol{Property: r.Property, Sig: sig, Case: caseID, Desc: desc, Detail: detail}
	if r.OutDir != "" {
		p := filepath.Join(r.OutDir, fmt.Sprintf("viol-b%d-%d.json", r.Batch, len(r.viols)))
		v.Replay = p
		data, _ := json.MarshalIndent(map[string]any{
			"property": r.Property, "tier": r.Tier, "seed": r.Seed, "batch": r.Batch, "nbatch": r.NBatch,
			"case": caseID, "sig": sig, "desc": desc, "detail": detail,
		}, "", " ")
		os.WriteFile(p, data, 0o644)
	}
	r.viols = append(r.viols, v)
}

func (r *Run) NumViolations() int {
	r.mu.Lock()
	defer r.mu.Unlock()
	n := 0
	for _, c := range r.violCount {
		n += c
	}
	return n
}

func (r *Run) Inconclusive(reason string) {
	r.mu.Lock()
	r.inconclusive = append(r.inconclusive, reason)
	r.mu.Unlock()
}

// Result is what a child writes for the driver.
type Result struct {
	Property     string           `json:"property"`
	Tier         string           `json:"tier"`
	Seed         int64            `json:"seed"`
	Batch        int              `json:"batch"`
	NBatch       int              `json:"nbatch"`
	Evaluations  int64            `json:"evaluations"`
	Distinct     []string         `json:"distinct"`
	Samples      []any            `json:"samples"`
	Counters     map[string]int64 `json:"counters"`
	Violations   []Viol           `json:"violations"`
	ViolCounts   map[string]int   `json:"viol_counts"`
	Inconclusive []string         `json:"inconclusive"`
	Rule         string           `json:"rule"`
	Assumptions  []string         `json:"assumptions"`
	Exhaustive   bool             `json:"exhaustive"`
	Extra        map[string]any   `json:"extra"`
	WallS        float64          `json:"wall_s"`
	Done         bool             `json:"done"`
}

func (r *Run) Write() error {
	r.mu.Lock()
	defer r.mu.Unlock()
	d := make([]string, 0, len(r.distinct))
	for k := range r.distinct {
		d = append(d, k)
	}
	sort.Strings(d)
	res := Result{
		Property: r.Property, Tier: r.Tier, Seed: r.Seed, Batch: r.Batch, NBatch: r.NBatch,
		Evaluations: r.evaluations, Distinct: d, Samples: r.samples, Counters: r.counters,
		Violations: r.viols, ViolCounts: r.violCount, Inconclusive: r.inconclusive,
		Rule: r.Rule, Assumptions: r.Assumptions, Exhaustive: r.Exhaustive, Extra: r.Extra,
		WallS: time.Since(r.start).Seconds(), Done: true,
	}
	data, err := json.MarshalIndent(res, "", " ")
	if err != nil {
		return err
	}
	if r.OutDir == "" {
		_, err = os.Stdout.Write(data)
		return err
	}
	tmp := filepath.Join(r.OutDir, fmt.Sprintf("result-b%d.json.tmp", r.Batch))
	if err := os.WriteFile(tmp, data, 0o644); err != nil {
		return err
	}
	return os.Rename(tmp, filepath.Join(r.OutDir, fmt.Sprintf("result-b%d.json", r.Batch)))
}
