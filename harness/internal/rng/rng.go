// Package rng is a small deterministic splitmix64 generator. Every case derives its
// own stream from (VERIF_SEED, property, case labels) so case lists are a function of
// the seed and tier only.
package rng

import (
	"hash/fnv"
)

type R struct{ s uint64 }

func New(seed int64, labels ...string) *R {
	h := fnv.New64a()
	var b [8]byte
	for i := 0; i < 8; i++ {
		b[i] = byte(uint64(seed) >> (8 * i))
	}
	h.Write(b[:])
	for _, l := range labels {
		h.Write([]byte{0})
		h.Write([]byte(l))
	}
	r := &R{s: h.Sum64()}
	r.U64()
	return r
}

func (r *R) U64() uint64 {
	r.s += 0x9E3779B97F4A7C15
	x := r.s
	x ^= x >> 30
	x *= 0xBF58476D1CE4E5B9
	x ^= x >> 27
	x *= 0x94D049BB133111EB
	x ^= x >> 31
	return x
}

// Intn returns a value in [0,n). n must be > 0.
func (r *R) Intn(n int) int {
	if n <= 0 {
		return 0
	}
	return int(r.U64() % uint64(n))
}

// Range returns a value in [lo,hi].
func (r *R) Range(lo, hi int) int {
	if hi <= lo {
		return lo
	}
	return lo + r.Intn(hi-lo+1)
}

func (r *R) Bool() bool { return r.U64()&1 == 1 }

// Chance returns true with probability num/den.
func (r *R) Chance(num, den int) bool { return r.Intn(den) < num }

func (r *R) Bytes(n int) []byte {
	b := make([]byte, n)
	r.Fill(b)
	return b
}

func (r *R) Fill(b []byte) {
	for i := 0; i < len(b); i += 8 {
		x := r.U64()
		for j := 0; j < 8 && i+j < len(b); j++ {
			b[i+j] = byte(x >> (8 * j))
		}
	}
}

// Fork derives an independent generator.
func (r *R) Fork() *R {
	return &R{s: r.U64() ^ 0xD6E8FEB86659FD93}
}

func (r *R) Perm(n int) []int {
	p := make([]int, n)
	for i := range p {
		p[i] = i
	}
	for i := n - 1; i > 0; i-- {
		j := r.Intn(i + 1)
		p[i], p[j] = p[j], p[i]
	}
	return p
}

func Pick[T any](r *R, xs []T) T { return xs[r.Intn(len(xs))] }
