#!/usr/bin/env python3
"""Rewrites the seeded-change table in DESIGN.md from /verif/seeded/*/meta.json."""
import json, glob, os, re
rows = []
miss = 0
for d in sorted(glob.glob("/verif/seeded/*")):
    m = json.load(open(os.path.join(d, "meta.json")))
    name = os.path.basename(d)
    files = sorted({l[6:].strip() for l in open(os.path.join(d, "patch.diff")) if l.startswith("+++ b/")})
    det = m["detected_by"].replace("|", "\\|")
    first = "missed → widened" if ("MISSED" in det or "after widening" in det) else ("hand-made" if "hand" in " ".join(m.get("what_was_run", [])) else ("NOT caught" if det.startswith("NOT DETECTED") else "caught"))
    if first.startswith("missed"):
        miss += 1
    rows.append("| %s | %s | %s | %s | %s |" % (name, ", ".join("`%s`" % f for f in files), m["needs_to_manifest"].replace("|", "\\|"), det, first))
hdr = "| seed | file | needs | reported as | first try |\n|---|---|---|---|---|\n"
table = hdr + "\n".join(rows) + "\n"
p = "/verif/DESIGN.md"
s = open(p).read()
start = s.index("| seed | ")
end = s.index("\nScore on the first try", start)
s = s[:start] + table + s[end:]
open(p, "w").write(s)
print(len(rows), "seeds,", miss, "missed first")
