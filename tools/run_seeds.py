#!/usr/bin/env python3
"""Development aid: apply every kept seeded change to a scratch worktree of /repo's HEAD and run the check of the property it
breaks (quick tier). usage: tools/run_seeds.py [name-prefix]   -> out/seed_matrix.json"""
import json, os, subprocess, sys, glob
VERIF = os.path.dirname(os.path.dirname(os.path.abspath(__file__)))
pref = sys.argv[1] if len(sys.argv) > 1 else ""
res = []
for d in sorted(glob.glob(os.path.join(VERIF, "seeded", pref + "*"))):
    name = os.path.basename(d)
    meta = json.load(open(os.path.join(d, "meta.json")))
    prop = meta["breaks_property"]
    wt = "/tmp/sd-" + name
    subprocess.run(["git", "-C", "/repo", "worktree", "remove", "--force", wt], capture_output=True)
    subprocess.run(["git", "-C", "/repo", "worktree", "add", "-q", "--detach", wt, "HEAD"], check=True)
    a = subprocess.run(["git", "-C", wt, "apply", os.path.join(d, "patch.diff")], capture_output=True, text=True)
    e = dict(seed=name, property=prop)
    if a.returncode != 0:
        e["result"] = "patch-does-not-apply"
        e["first"] = a.stderr[-300:]
    else:
        p = subprocess.run([os.path.join(VERIF, "check"), prop, "quick"], cwd=VERIF, env=dict(os.environ, VERIF_REPO=wt), capture_output=True, text=True)
        viol = [l for l in p.stdout.splitlines() if l.startswith("VIOLATION")]
        e["exit"] = p.returncode
        e["result"] = "detected" if viol else ("not-detected" if p.returncode == 0 else "no-verdict")
        e["first"] = viol[0][:260] if viol else p.stdout[-300:]
    subprocess.run(["git", "-C", "/repo", "worktree", "remove", "--force", wt], capture_output=True)
    print(json.dumps(e), flush=True)
    res.append(e)
json.dump(res, open(os.path.join(VERIF, "out", "seed_matrix.json"), "w"), indent=1)
print("detected %d / %d" % (sum(1 for e in res if e["result"] == "detected"), len(res)))
