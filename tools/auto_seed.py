#!/usr/bin/env python3
"""usage: auto_seed.py <ID>  (e.g. C01d3) — validates the sub-agent's seed in /tmp/wt-<ID> + /tmp/seed-<ID>: builds, demo fails with / passes
without the change, then runs the property's quick check with VERIF_REPO. If the check reports a violation the seed is kept
automatically (name derived from the changed file); otherwise the output is printed for a manual look."""
import json, os, re, subprocess, sys
sid = sys.argv[1]; prop = sid[:3]
wt, sd = f"/tmp/wt-{sid}", f"/tmp/seed-{sid}"
env = dict(os.environ, GOFLAGS="-mod=mod", GOPROXY="off", GOSUMDB="off", GOTOOLCHAIN="local")
def sh(cmd, cwd=wt, **kw):
    return subprocess.run(cmd, shell=True, cwd=cwd, env=env, capture_output=True, text=True, **kw)
st = sh("git status --short").stdout.strip().replace("\n", "; ")
diff = sh("git diff -- . ':(exclude)*zz_seed_demo_test.go'").stdout
open(f"{sd}/.cur.diff", "w").write(diff)
same = diff == open(f"{sd}/patch.diff").read()
files = re.findall(r"^\+\+\+ b/(.*)$", diff, re.M)
demo = [l[3:] for l in sh("git status --short").stdout.splitlines() if l.startswith("??") and l.endswith("_test.go")]
pkg = "./" + os.path.dirname(demo[0]) if demo and os.path.dirname(demo[0]) else "."
b = sh("go build ./... && go build -tags verif ./...")
w = sh(f"go test -vet=off -count=1 -run 'Seed' {pkg} 2>&1 | grep -E '^(ok|FAIL|---)' | head -3").stdout.replace("\n", " ")
sh(f"git apply -R {sd}/.cur.diff")
wo = sh(f"go test -vet=off -count=1 -run 'Seed' {pkg} 2>&1 | grep -E '^(ok|FAIL|---)' | head -3").stdout.replace("\n", " ")
sh(f"git apply {sd}/.cur.diff")
sh("git checkout -q --detach main")
print(f"[{sid}] status: {st} | patch matches: {same} | build rc={b.returncode} | files: {files}")
print(f"[{sid}] demo WITH: {w}| WITHOUT: {wo}")
ok = b.returncode == 0 and "FAIL" in w and "ok" in wo and "FAIL" not in wo
p = subprocess.run(["/verif/check", prop, "quick"], cwd="/verif", env=dict(env, VERIF_REPO=wt), capture_output=True, text=True)
viol = [l for l in p.stdout.splitlines() if l.startswith("VIOLATION")]
summ = [l for l in p.stdout.splitlines() if l.startswith(prop + " quick")]
print(f"[{sid}] {summ[0] if summ else p.stdout[-300:]}")
for v in viol[:4]:
    print("   ", v[:300])
if ok and viol:
    base = os.path.splitext(os.path.basename(files[0]))[0] if files else "x"
    name = f"{sid}-{base}"
    sigs = "; ".join(re.sub(r"^.*#\s*", "", v)[:110] for v in viol[:3])
    needs = "see meta.txt (written by the author)"
    subprocess.run(["python3", "/verif/tools/keep_seed.py", name, sd, prop, f"{prop} quick: {sigs}", needs], capture_output=True)
    subprocess.run(["git", "-C", "/repo", "worktree", "remove", "--force", wt], capture_output=True)
    print(f"[{sid}] KEPT as {name}")
elif not ok:
    print(f"[{sid}] INVALID SEED (demo/build) — look manually")
else:
    print(f"[{sid}] NOT DETECTED by {prop} — strengthen")
# the scratch build of this worktree is not needed any more (20 MB each)
import hashlib, shutil, glob as _glob
tag = hashlib.sha1(wt.encode()).hexdigest()[:8]
shutil.rmtree(f"/verif/harness/bin/{tag}", ignore_errors=True)
for f in _glob.glob(f"/verif/harness/.alt-{tag}.*"):
    os.remove(f)
