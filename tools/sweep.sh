#!/bin/bash
# usage: sweep.sh <tier> <seed>... — runs every check on /repo and prints one line per run (non-KNOWN output only)
tier=$1; shift
cd /verif
for s in "$@"; do
  for i in $(seq -w 1 20); do
    id=C$i
    out=$(VERIF_SEED=$s ./check $id $tier 2>&1); rc=$?
    echo "rc=$rc $(echo "$out" | grep -v '^KNOWN-FINDING' | head -4 | cut -c1-260 | tr '\n' '|')"
  done
done
