#!/usr/bin/env python3
"""usage: prep_seed.py <ID> [<suffix>] — creates /tmp/wt-<ID><suffix> (scratch worktree of /repo HEAD) and /tmp/seed-<ID><suffix>/property.txt"""
import json, os, subprocess, sys
pid = sys.argv[1]; suf = sys.argv[2] if len(sys.argv) > 2 else ""
for l in open("/verif/properties.jsonl"):
    d = json.loads(l)
    if d["id"] == pid:
        break
else:
    sys.exit("no such property")
wt, sd = f"/tmp/wt-{pid}{suf}", f"/tmp/seed-{pid}{suf}"
os.makedirs(sd, exist_ok=True)
with open(os.path.join(sd, "property.txt"), "w") as f:
    f.write(f"{d['id']} — {d['title']}\n\nStatement: {d['statement']}\n\nQuantifier: {d['quantifier']['text']}\n\nAnchored in: {', '.join(d['anchors']['files'])}\n")
subprocess.check_call(["git", "-C", "/repo", "worktree", "add", "--detach", wt, "HEAD"], stdout=subprocess.DEVNULL, stderr=subprocess.DEVNULL)
print(wt, sd)
