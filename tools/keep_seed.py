#!/usr/bin/env python3
"""usage: keep_seed.py <seed-name> <agent-dir> <property> <detected-by> <needs> — copies a validated seeded change into /verif/seeded/<seed-name>/"""
import json, os, shutil, sys, glob
name, src, prop, detected, needs = sys.argv[1:6]
dst = os.path.join("/verif/seeded", name)
os.makedirs(dst, exist_ok=True)
shutil.copy(os.path.join(src, "patch.diff"), os.path.join(dst, "patch.diff"))
for f in glob.glob(os.path.join(src, "*_test.go")) + glob.glob(os.path.join(src, "meta.txt")):
    shutil.copy(f, dst)
meta = dict(breaks_property=prop, needs_to_manifest=needs, detected_by=detected,
            what_was_run=["go build ./... && go build -tags verif ./... in a scratch worktree with the patch",
                          "demonstration test fails with the patch and passes with the patch reverse-applied (re-run by the main session)",
                          "VERIF_REPO=<scratch worktree> ./check %s quick" % prop],
            author_notes="meta.txt (written by the sub-agent that produced the change)")
json.dump(meta, open(os.path.join(dst, "meta.json"), "w"), indent=1)
print("kept", dst)
