#!/bin/bash
# usage: validate_seed.sh <ID> <pkgdir> [check-ids...] — demo with/without the change in /tmp/wt-<ID>, then the named checks (default <ID>) with VERIF_REPO
export GOFLAGS=-mod=mod GOPROXY=off GOSUMDB=off GOTOOLCHAIN=local
id=$1; pkg=$2; shift 2; checks=${@:-${id:0:3}}
cd /tmp/wt-$id || exit 2
echo "status: $(git status --short | tr '\n' ';')"
git diff -- . ':(exclude)*zz_seed_demo_test.go' > /tmp/seed-$id/.cur.diff
cmp -s /tmp/seed-$id/.cur.diff /tmp/seed-$id/patch.diff && echo "patch.diff matches worktree" || echo "patch.diff DIFFERS from worktree"
go build ./... && go build -tags verif ./... && echo "builds ok"
w=$(go test -vet=off -count=1 -run 'Seed' $pkg 2>&1 | grep -E "^(ok|FAIL|---)" | head -3 | tr '\n' ' ')
git apply -R /tmp/seed-$id/.cur.diff
wo=$(go test -vet=off -count=1 -run 'Seed' $pkg 2>&1 | grep -E "^(ok|FAIL|---)" | head -3 | tr '\n' ' ')
git apply /tmp/seed-$id/.cur.diff
echo "demo WITH: $w"; echo "demo WITHOUT: $wo"
git checkout -q --detach main 2>&1 | head -3   # bring the scratch tree to the current /repo head, keeping the seeded change
cd /verif
for c in $checks; do VERIF_REPO=/tmp/wt-$id ./check $c quick 2>&1 | grep -v KNOWN | cut -c1-330 | head -5; done
