#!/bin/bash
# usage: sweep_ids.sh <tier> <seed> <ID>... 
tier=$1; seed=$2; shift 2
cd /verif
for id in "$@"; do
  t0=$(date +%s)
  out=$(VERIF_SEED=$seed ./check $id $tier 2>&1); rc=$?
  echo "rc=$rc t=$(( $(date +%s)-t0 ))s $(echo "$out" | grep -v '^KNOWN-FINDING' | head -4 | cut -c1-260 | tr '\n' '|')"
done
