#!/usr/bin/env python3
"""Development aid: revert each 'fix:' commit on a scratch worktree and confirm the corresponding check reports a violation.
usage: [NM_COMMITS=a,b] tools/natural_mutants.py [tier] [only-property|-]   -> writes /verif/out/natural_mutants.json"""
import json, os, subprocess, sys, shutil
VERIF = os.path.dirname(os.path.dirname(os.path.abspath(__file__)))
tier = sys.argv[1] if len(sys.argv) > 1 else "quick"
only = sys.argv[2] if len(sys.argv) > 2 else None
commits = set(os.environ.get("NM_COMMITS", "").split(",")) - {""}
k = json.load(open(os.path.join(VERIF, "known_findings.json")))
res = []
seen = set()
for f in k["findings"]:
    if f["status"] != "fixed" or f["commit"] in seen:
        continue
    if only and only != "-" and f["property"] != only:
        continue
    if commits and f["commit"] not in commits:
        continue
    seen.add(f["commit"])
    wt = "/tmp/nm-%s" % f["commit"]
    subprocess.run(["git", "-C", "/repo", "worktree", "remove", "--force", wt], capture_output=True)
    subprocess.run(["git", "-C", "/repo", "worktree", "add", "-q", wt, "HEAD"], check=True)
    r = subprocess.run(["git", "-C", wt, "revert", "--no-commit", f["commit"]], capture_output=True, text=True)
    entry = dict(property=f["property"], commit=f["commit"], what=f["what"][:90])
    if r.returncode != 0:
        entry["result"] = "revert-conflict"
    else:
        env = dict(os.environ, VERIF_REPO=wt)
        p = subprocess.run([os.path.join(VERIF, "check"), f["property"], tier], cwd=VERIF, env=env, capture_output=True, text=True)
        viol = [l for l in p.stdout.splitlines() if l.startswith("VIOLATION")]
        entry["exit"] = p.returncode
        entry["result"] = "detected" if viol else ("not-detected" if p.returncode == 0 else "no-verdict")
        entry["first"] = viol[0][:220] if viol else p.stdout[-300:]
    subprocess.run(["git", "-C", "/repo", "worktree", "remove", "--force", wt], capture_output=True)
    print(json.dumps(entry), flush=True)
    res.append(entry)
os.makedirs(os.path.join(VERIF, "out"), exist_ok=True)
json.dump(res, open(os.path.join(VERIF, "out", "natural_mutants%s.json" % ("-" + tier if commits else "")), "w"), indent=1)
print("detected %d / %d" % (sum(1 for e in res if e["result"] == "detected"), len(res)))
